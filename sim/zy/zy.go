// Package zy wraps the interpreter under test for the engines: construction
// in the configurations the swarm draws from, evaluation under recover and a
// step budget, and canonical rendering of values.
package zy

import (
	"fmt"
	"regexp"
	"runtime/debug"
	"strings"

	"verifsim/kernel"

	"github.com/glycerine/zygomys/v9/zygo"
)

// Outcome of one call into the library.
type Outcome struct {
	Val      zygo.Sexp
	Err      error
	Panicked bool
	PanicMsg string
	Site     string // innermost zygo function on the panic stack
	Budget   bool   // aborted by the step budget (not a fault, interpreter must be discarded)
}

func (o Outcome) OK() bool { return o.Err == nil && !o.Panicked }

// Kind classifies an outcome for comparison: "val", "err", "panic", "budget".
func (o Outcome) Kind() string {
	switch {
	case o.Budget:
		return "budget"
	case o.Panicked:
		return "panic"
	case o.Err != nil:
		return "err"
	}
	return "val"
}

func (o Outcome) String() string {
	switch o.Kind() {
	case "budget":
		return "<budget>"
	case "panic":
		return "<panic@" + o.Site + ": " + o.PanicMsg + ">"
	case "err":
		return "<err: " + NormErr(o.Err.Error()) + ">"
	}
	return Show(o.Val)
}

// Guard runs f under recover and reports a panic as data.
func Guard(f func() (zygo.Sexp, error)) (out Outcome) {
	defer func() {
		if r := recover(); r != nil {
			out.Panicked = true
			out.PanicMsg = fmt.Sprint(r)
			if len(out.PanicMsg) > 300 {
				out.PanicMsg = out.PanicMsg[:300]
			}
			out.Site = kernel.PanicSite(string(debug.Stack()))
		}
		if kernel.BudgetHit() {
			out.Budget = true
		}
	}()
	v, err := f()
	out.Val, out.Err = v, err
	return
}

const DefaultBudget = 200000

// Eval evaluates text on env under recover and a step budget.
func Eval(env *zygo.Zlisp, text string, budget int64) Outcome {
	kernel.SetBudget(budget)
	defer kernel.SetBudget(-1)
	return Guard(func() (zygo.Sexp, error) { return env.EvalString(text) })
}

// New builds an interpreter: kind ∈ {"std","bare","sandbox","sandbox-std"}.
func New(kind string) *zygo.Zlisp {
	var env *zygo.Zlisp
	switch kind {
	case "bare":
		env = zygo.NewZlisp()
	case "sandbox":
		env = zygo.NewZlispSandbox()
	case "sandbox-std":
		env = zygo.NewZlispSandbox()
		env.StandardSetup()
	default:
		env = zygo.NewZlisp()
		env.StandardSetup()
	}
	return env
}

func Show(v zygo.Sexp) string {
	if v == nil {
		return "<nil-sexp>"
	}
	out := Guard(func() (zygo.Sexp, error) { return &zygo.SexpStr{S: v.SexpString(nil)}, nil })
	if out.Panicked {
		return "<print-panic@" + out.Site + ">"
	}
	return out.Val.(*zygo.SexpStr).S
}

var (
	reGen   = regexp.MustCompile(`__(anon|loop|gensym|body|cond|ifbody|main|callExprEval)?[A-Za-z_]*[0-9]+`)
	reLine  = regexp.MustCompile(`(?i)(on line|line) [0-9]+`)
	rePtr   = regexp.MustCompile(`0x[0-9a-fA-F]+`)
	reTrace = regexp.MustCompile(`(?s)stack trace:.*$`)
	rePcs   = regexp.MustCompile(`in [A-Za-z_0-9]+:[0-9]+`)
)

// NormErr masks the parts of an error text that legitimately differ between
// two interpreters with different symbol counters / program positions.
func NormErr(s string) string {
	s = reTrace.ReplaceAllString(s, "stack trace:<masked>")
	s = reGen.ReplaceAllString(s, "__G#")
	s = reLine.ReplaceAllString(s, "line #")
	s = rePtr.ReplaceAllString(s, "0x#")
	s = rePcs.ReplaceAllString(s, "in F:#")
	return strings.TrimSpace(s)
}

// NormVal masks generated-symbol digits and addresses in a printed value.
func NormVal(s string) string {
	s = reGen.ReplaceAllString(s, "__G#")
	s = rePtr.ReplaceAllString(s, "0x#")
	return s
}
