package kernel

import (
	"bufio"
	"bytes"
	"crypto/sha256"
	"encoding/hex"
	"encoding/json"
	"fmt"
	"os"
	"os/exec"
	"regexp"
	"sort"
	"strconv"
	"strings"
	"sync"
	"time"
)

// Violation is the record every oracle produces (DESIGN §2.7).
type Violation struct {
	Property string `json:"property"`
	Clause   string `json:"clause"`
	Site     string `json:"site"`
	Detail   string `json:"detail"`
}

func (v Violation) Key() string { return v.Property + "|" + v.Clause + "|" + v.Site }

// Result of executing one scenario.
type Result struct {
	Violations []Violation    `json:"violations,omitempty"`
	Sigs       []string       `json:"-"` // state / fault signatures reached
	Faults     map[string]int `json:"faults,omitempty"`
	Probes     map[string]int `json:"probes,omitempty"`
	Steps      int64          `json:"steps"`
	Execs      int            `json:"execs"` // executions (evaluations, deliveries...) performed
	Unbounded  int            `json:"unbounded,omitempty"`
	Trace      []string       `json:"-"` // determinism trace (hashed into Digest)
}

func (r *Result) Violate(prop, clause, site, detail string) {
	if len(detail) > 1500 {
		detail = detail[:1500] + "…"
	}
	r.Violations = append(r.Violations, Violation{prop, clause, site, detail})
}
func (r *Result) Sig(s string) { r.Sigs = append(r.Sigs, s) }
func (r *Result) Fault(k string) {
	if r.Faults == nil {
		r.Faults = map[string]int{}
	}
	r.Faults[k]++
}
func (r *Result) Probe(k string) {
	if r.Probes == nil {
		r.Probes = map[string]int{}
	}
	r.Probes[k]++
}
func (r *Result) Tracef(f string, a ...interface{}) { r.Trace = append(r.Trace, fmt.Sprintf(f, a...)) }

func (r *Result) Digest() string {
	h := sha256.New()
	for _, t := range r.Trace {
		h.Write([]byte(t))
		h.Write([]byte{0})
	}
	for _, v := range r.Violations {
		h.Write([]byte(v.Key()))
		h.Write([]byte{1})
	}
	fmt.Fprintf(h, "%d|%d", r.Steps, r.Execs)
	return hex.EncodeToString(h.Sum(nil))[:16]
}

// Scenario envelope: the replay file is exactly this document.
type Scenario struct {
	Property string          `json:"property"`
	Part     string          `json:"part"` // which part of the property's plan (engine configuration)
	Seed     uint64          `json:"seed"`
	Index    int             `json:"index"`
	Body     json.RawMessage `json:"body"`
	// History: scenarios (by index, regenerated from Tier/Seed) executed before this one in the same process.
	// Zygomys keeps process-global state (the type registry), so an earlier interpreter can influence a later one;
	// a violation that needs such a history is replayed, and minimised, together with it.
	History []int  `json:"history,omitempty"`
	Tier    string `json:"tier,omitempty"`
	// filled in by the runner on reported violations
	Violation *Violation `json:"violation,omitempty"`
	Note      string     `json:"note,omitempty"`
}

// Part is one engine configuration inside a property's plan.
type Part struct {
	Name string
	// Count returns how many scenarios this part contributes for a tier.
	Count func(tier string) int
	// Generate builds scenario #i (0-based inside the part). Pure function of (rng, tier, i).
	Generate func(rng *RNG, tier string, i int) interface{}
	// Execute runs the scenario body. No randomness.
	Execute func(body json.RawMessage) *Result
	// Shrink proposes smaller bodies, most aggressive first.
	Shrink func(body json.RawMessage) []json.RawMessage
	// Isolated parts need one process per scenario (they touch process-global state).
	Isolated bool
	// Exhaustive reports whether the tier enumerates a finite space completely.
	Exhaustive func(tier string) bool
}

type Plan struct {
	Property   string
	Level      string
	Rule       string
	Parts      []*Part
	Components map[string][]string
	Assume     []string
}

var plans = map[string]*Plan{}

// Warm-up hooks run once at process start, before any scenario is generated or executed: anything a generator
// reads from the system under test (e.g. the name universe of an interpreter) must be read from a pristine
// process, or generation would depend on what the process has executed so far.
var warmups []func()

func RegisterWarmup(f func()) { warmups = append(warmups, f) }

var warmupsFor = map[string][]func(){}

// RegisterWarmupFor: a warm-up that only processes working on the given property run (costly ones)
func RegisterWarmupFor(prop string, f func()) { warmupsFor[prop] = append(warmupsFor[prop], f) }

func Warmup(prop string) {
	for _, f := range warmups {
		f()
	}
	for _, f := range warmupsFor[prop] {
		f()
	}
}

func Register(p *Plan) { plans[p.Property] = p }

func PlanFor(prop string) *Plan { return plans[prop] }

func Properties() []string {
	var ps []string
	for k := range plans {
		ps = append(ps, k)
	}
	sort.Strings(ps)
	return ps
}

func (p *Plan) part(name string) *Part {
	for _, x := range p.Parts {
		if x.Name == name {
			return x
		}
	}
	return nil
}

func (p *Plan) Total(tier string) int {
	n := 0
	for _, x := range p.Parts {
		n += x.Count(tier)
	}
	return n
}

// locate maps a global scenario index to (part, index inside part).
func (p *Plan) locate(tier string, idx int) (*Part, int) {
	for _, x := range p.Parts {
		c := x.Count(tier)
		if idx < c {
			return x, idx
		}
		idx -= c
	}
	return nil, 0
}

// GenScenario is a pure function of (property, tier, seed, idx).
func (p *Plan) GenScenario(tier string, seed uint64, idx int) *Scenario {
	part, i := p.locate(tier, idx)
	if part == nil {
		return nil
	}
	rng := NewRNG(seed, HashString(p.Property), HashString(part.Name), uint64(i))
	body := part.Generate(rng, tier, i)
	raw, err := json.Marshal(body)
	if err != nil {
		panic(err)
	}
	return &Scenario{Property: p.Property, Part: part.Name, Seed: seed, Index: idx, Body: raw, Tier: tier}
}

// ExecScenario runs a scenario in this process.
func ExecScenario(sc *Scenario) *Result {
	p := plans[sc.Property]
	if p == nil {
		return &Result{Violations: nil}
	}
	part := p.part(sc.Part)
	if part == nil {
		fmt.Fprintf(os.Stderr, "unknown part %q for %s\n", sc.Part, sc.Property)
		os.Exit(2)
	}
	for _, hidx := range sc.History {
		h := p.GenScenario(sc.Tier, sc.Seed, hidx)
		if h == nil {
			continue
		}
		if hp := p.part(h.Part); hp != nil && !hp.Isolated {
			StepReset()
			hp.Execute(h.Body)
		}
	}
	StepReset()
	res := part.Execute(sc.Body)
	for i := range res.Violations {
		if res.Violations[i].Property == "" {
			res.Violations[i].Property = sc.Property
		}
	}
	return res
}

// ---------------------------------------------------------------- hang watchdog

// A call that neither returns nor executes VM instructions is not bounded by the step
// budget (e.g. a loop inside the parser). The watchdog notices a scenario that has been
// running for hangSec seconds while the step counter stood still for that long.
var (
	wdIdx   int64 = -1
	wdStart time.Time
	wdMu    sync.Mutex
)

func hangSec() time.Duration {
	if v := os.Getenv("VERIF_HANG_SEC"); v != "" {
		if n, err := strconv.Atoi(v); err == nil && n > 0 {
			return time.Duration(n) * time.Second
		}
	}
	return 25 * time.Second
}

func wdBegin(idx int) {
	wdMu.Lock()
	wdIdx, wdStart = int64(idx), time.Now()
	wdMu.Unlock()
}

func wdEnd() {
	wdMu.Lock()
	wdIdx = -1
	wdMu.Unlock()
}

// startWatchdog calls onHang(idx) (which must not return) when a scenario stalls.
func startWatchdog(onHang func(idx int)) { startWatchdogNote(onHang, "") }

// noteFile (optional) receives the index of a scenario once it has made no VM step for 3 s: if the process then
// dies of stack exhaustion, the runner can tell recursion inside the library (no steps) from deep script recursion.
func startWatchdogNote(onHang func(idx int), noteFile string) {
	limit := hangSec()
	go func() {
		lastSteps := int64(-1)
		lastIdx := int64(-2)
		noted := int64(-2)
		var lastChange time.Time
		for {
			time.Sleep(500 * time.Millisecond)
			wdMu.Lock()
			idx, st := wdIdx, wdStart
			wdMu.Unlock()
			if idx < 0 {
				lastIdx = -2
				continue
			}
			steps := Steps()
			if idx != lastIdx || steps != lastSteps {
				lastIdx, lastSteps, lastChange = idx, steps, time.Now()
				continue
			}
			if noteFile != "" && noted != idx && time.Since(lastChange) > 3*time.Second {
				noted = idx
				os.WriteFile(noteFile, []byte(strconv.FormatInt(idx, 10)), 0644)
			}
			if time.Since(st) > limit && time.Since(lastChange) > limit {
				onHang(int(idx))
			}
		}
	}()
}

// ---------------------------------------------------------------- worker

type summary struct {
	T         string           `json:"t"`
	Execs     int64            `json:"execs"`
	Scenarios int64            `json:"scenarios"`
	Steps     int64            `json:"steps"`
	Unbounded int64            `json:"unbounded"`
	Sigs      []string         `json:"sigs"`
	Faults    map[string]int64 `json:"faults"`
	Probes    map[string]int64 `json:"probes"`
	Samples   []*Scenario      `json:"samples"`
	ViolCount map[string]int64 `json:"viol_count"`
	WallS     float64          `json:"wall_s"`
}

func sigHash(s string) string {
	h := sha256.Sum256([]byte(s))
	return hex.EncodeToString(h[:6])
}

// Work executes the scenarios idx ≡ worker (mod of) in [from,to) and streams
// a JSONL log to out. Isolated parts are executed through a child process
// each (self, "replay-one").
func Work(prop, tier string, seed uint64, worker, of int, from, to int, outPath string, digests bool, deadline time.Time) {
	p := plans[prop]
	if p == nil {
		fmt.Fprintf(os.Stderr, "no plan for %s\n", prop)
		os.Exit(2)
	}
	f, err := os.Create(outPath)
	if err != nil {
		fmt.Fprintln(os.Stderr, err)
		os.Exit(2)
	}
	defer f.Close()
	w := bufio.NewWriter(f)
	start := time.Now()
	sum := summary{T: "summary", Faults: map[string]int64{}, Probes: map[string]int64{}, ViolCount: map[string]int64{}}
	sigs := map[string]bool{}
	firstViol := map[string]bool{}
	total := p.Total(tier)
	if to <= 0 || to > total {
		to = total
	}
	self, _ := os.Executable()
	timedOut := false
	startWatchdogNote(func(idx int) {
		// the main goroutine is stuck inside the scenario and does not write: safe to write here
		fmt.Fprintf(w, "{\"t\":\"H\",\"i\":%d}\n", idx)
		w.Flush()
		f.Sync()
		os.Exit(3)
	}, outPath+".stalled")
	for idx := from; idx < to; idx++ {
		if idx%of != worker {
			continue
		}
		if !deadline.IsZero() && time.Now().After(deadline) {
			timedOut = true
			break
		}
		sc := p.GenScenario(tier, seed, idx)
		part := p.part(sc.Part)
		fmt.Fprintf(w, "{\"t\":\"B\",\"i\":%d}\n", idx)
		w.Flush()
		var res *Result
		var dig string
		if part.Isolated {
			res, dig = execIsolated(self, sc)
		} else {
			wdBegin(idx)
			res = ExecScenario(sc)
			wdEnd()
			dig = res.Digest()
		}
		if digests {
			fmt.Fprintf(w, "{\"t\":\"E\",\"i\":%d,\"d\":\"%s\"}\n", idx, dig)
		} else {
			fmt.Fprintf(w, "{\"t\":\"E\",\"i\":%d}\n", idx)
		}
		sum.Scenarios++
		sum.Execs += int64(res.Execs)
		sum.Steps += res.Steps
		sum.Unbounded += int64(res.Unbounded)
		for _, s := range res.Sigs {
			sigs[sigHash(s)] = true
		}
		for k, v := range res.Faults {
			sum.Faults[k] += int64(v)
		}
		for k, v := range res.Probes {
			sum.Probes[k] += int64(v)
		}
		if len(sum.Samples) < 3 && (sum.Scenarios%97 == 1) {
			sum.Samples = append(sum.Samples, sc)
		}
		for _, v := range res.Violations {
			sum.ViolCount[v.Key()]++
			if !firstViol[v.Key()] {
				firstViol[v.Key()] = true
				vv := v
				sc2 := *sc
				sc2.Violation = &vv
				b, _ := json.Marshal(struct {
					T  string    `json:"t"`
					I  int       `json:"i"`
					Sc *Scenario `json:"scenario"`
				}{"V", idx, &sc2})
				w.Write(b)
				w.WriteByte('\n')
				w.Flush()
			}
		}
	}
	for s := range sigs {
		sum.Sigs = append(sum.Sigs, s)
	}
	sort.Strings(sum.Sigs)
	sum.WallS = time.Since(start).Seconds()
	b, _ := json.Marshal(sum)
	w.Write(b)
	w.WriteByte('\n')
	if timedOut {
		fmt.Fprintf(w, "{\"t\":\"T\"}\n")
	}
	w.Flush()
}

type isoOut struct {
	Res    *Result  `json:"res"`
	Sigs   []string `json:"sigs"`
	Digest string   `json:"digest"`
}

// execIsolated runs one scenario in a fresh child process.
func execIsolated(self string, sc *Scenario) (*Result, string) {
	b, _ := json.Marshal(sc)
	cmd := exec.Command(self, "exec-stdin")
	cmd.Stdin = bytes.NewReader(b)
	var out, errb bytes.Buffer
	cmd.Stdout = &out
	cmd.Stderr = &errb
	err := cmd.Run()
	var io isoOut
	if jerr := json.Unmarshal(lastLine(out.Bytes()), &io); jerr != nil || io.Res == nil {
		// child died: that is data (C01.K-killed), reported by the caller's property
		r := &Result{Execs: 1}
		if strings.Contains(errb.String(), "VERIF-HANG") {
			r.Violate(sc.Property, sc.Property+".T-returns", "stalled", "the call neither returned nor executed a VM instruction for "+hangSec().String()+" (not bounded by the step budget: the time is spent outside the VM loop)")
			return r, "hang"
		}
		r.Violate(sc.Property, sc.Property+".K-killed", KillSite(errb.String()), fmt.Sprintf("child exited (%v) without a result; stderr tail: %s", err, tail(errb.String(), 600)))
		return r, "dead"
	}
	io.Res.Sigs = io.Sigs
	return io.Res, io.Digest
}

func lastLine(b []byte) []byte {
	b = bytes.TrimRight(b, "\n")
	if i := bytes.LastIndexByte(b, '\n'); i >= 0 {
		return b[i+1:]
	}
	return b
}

func tail(s string, n int) string {
	if len(s) > n {
		return s[len(s)-n:]
	}
	return s
}

// ExecStdin: child side of execIsolated and of replay.
func ExecStdin() {
	var sc Scenario
	dec := json.NewDecoder(os.Stdin)
	if err := dec.Decode(&sc); err != nil {
		fmt.Fprintln(os.Stderr, "bad scenario:", err)
		os.Exit(2)
	}
	startWatchdog(func(idx int) {
		fmt.Fprintf(os.Stderr, "VERIF-HANG: no VM step and no return for %v\n", hangSec())
		os.Exit(3)
	})
	wdBegin(sc.Index)
	res := ExecScenario(&sc)
	wdEnd()
	b, _ := json.Marshal(isoOut{Res: res, Sigs: res.Sigs, Digest: res.Digest()})
	os.Stdout.Write(append([]byte("\n"), b...))
	os.Stdout.Write([]byte("\n"))
}

// RunChild executes sc in a fresh process of this same binary and returns its result.
func RunChild(sc *Scenario) *Result {
	self, _ := os.Executable()
	r, _ := execIsolated(self, sc)
	return r
}

// ---------------------------------------------------------------- minimise

func hasKey(res *Result, key string) bool {
	for _, v := range res.Violations {
		if v.Key() == key {
			return true
		}
	}
	return false
}

// Minimise shrinks sc while a violation with the same (property, clause, site)
// persists. Every candidate runs in a fresh process. Bounded by maxRuns / maxDur.
func Minimise(sc *Scenario, key string, maxRuns int, maxDur time.Duration) (*Scenario, int) {
	p := plans[sc.Property]
	part := p.part(sc.Part)
	runs := 0
	start := time.Now()
	cur := *sc
	if part.Shrink == nil {
		return &cur, 0
	}
	// first the history (delta debugging over the list of earlier scenarios), then the scenario itself
	for chunk := len(cur.History) / 2; len(cur.History) > 0 && chunk >= 1 && runs < maxRuns && time.Since(start) < maxDur; {
		reduced := false
		for i := 0; i+chunk <= len(cur.History) && runs < maxRuns && time.Since(start) < maxDur; {
			c := cur
			c.History = append(append([]int{}, cur.History[:i]...), cur.History[i+chunk:]...)
			runs++
			if hasKey(RunChild(&c), key) {
				cur = c
				reduced = true
			} else {
				i += chunk
			}
		}
		if !reduced || chunk > len(cur.History) {
			chunk /= 2
		}
		if chunk > len(cur.History)/2 && len(cur.History) > 1 {
			chunk = len(cur.History) / 2
		}
	}
	progress := true
	for progress && runs < maxRuns && time.Since(start) < maxDur {
		progress = false
		for _, cand := range part.Shrink(cur.Body) {
			if runs >= maxRuns || time.Since(start) >= maxDur {
				break
			}
			if bytes.Equal(cand, cur.Body) {
				continue
			}
			c := cur
			c.Body = cand
			runs++
			if hasKey(RunChild(&c), key) {
				cur = c
				progress = true
				break
			}
		}
	}
	return &cur, runs
}

// ---------------------------------------------------------------- sites

var frameRe = regexp.MustCompile(`(?m)^github\.com/glycerine/zygomys/v9/zygo\.((?:\(\*?\w+\)\.)?[\w]+)`)

// PanicSite extracts the innermost zygo function from a Go stack trace
// (no line numbers, so it is stable under unrelated edits).
func PanicSite(stack string) string {
	for _, m := range frameRe.FindAllStringSubmatch(stack, -1) {
		fn := m[1]
		if strings.Contains(fn, "Verif") || strings.Contains(fn, "verif") {
			continue
		}
		return fn
	}
	return "unknown"
}

func KillSite(stderr string) string {
	if i := strings.Index(stderr, "fatal error:"); i >= 0 {
		line := stderr[i:]
		if j := strings.IndexByte(line, '\n'); j >= 0 {
			line = line[:j]
		}
		return strings.TrimSpace(line) + "@" + PanicSite(stderr[i:])
	}
	if i := strings.Index(stderr, "panic:"); i >= 0 {
		return "panic@" + PanicSite(stderr[i:])
	}
	return "exit"
}
