package kernel

import (
	"errors"

	"github.com/glycerine/zygomys/v9/zygo"
)

// The simulated clock: VM instructions executed, counted through the
// guarded hook in Run (every nested Run included).

var ErrBudget = errors.New("verif: step budget exhausted")

var (
	stepTotal  int64 // steps since StepReset (per scenario)
	stepBudget int64 // remaining budget of the current evaluation; <0 = unlimited
	budgetHit  bool
)

func init() {
	zygo.VerifStepHook = func(env *zygo.Zlisp) error {
		stepTotal++
		if stepBudget >= 0 {
			if stepBudget == 0 {
				budgetHit = true
				return ErrBudget
			}
			stepBudget--
		}
		return nil
	}
	stepBudget = -1
}

func StepReset()       { stepTotal = 0; stepBudget = -1; budgetHit = false }
func Steps() int64     { return stepTotal }
func SetBudget(n int64) { stepBudget = n; budgetHit = false }
func BudgetHit() bool  { return budgetHit }
