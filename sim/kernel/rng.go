// Package kernel: PRNG, scenario plumbing, violation records, step clock.
package kernel

// RNG is xoshiro256** seeded through splitmix64. Every random choice of
// every generator comes from one of these, derived from VERIF_SEED, the
// property id and the scenario index. Executors never see an RNG.
type RNG struct{ s [4]uint64 }

func splitmix(x *uint64) uint64 {
	*x += 0x9e3779b97f4a7c15
	z := *x
	z = (z ^ (z >> 30)) * 0xbf58476d1ce4e5b9
	z = (z ^ (z >> 27)) * 0x94d049bb133111eb
	return z ^ (z >> 31)
}

// NewRNG derives a generator from a seed and any number of stream labels.
func NewRNG(seed uint64, labels ...uint64) *RNG {
	x := seed
	for _, l := range labels {
		x = splitmix(&x) ^ (l * 0xd6e8feb86659fd93)
	}
	r := &RNG{}
	for i := range r.s {
		r.s[i] = splitmix(&x)
	}
	return r
}

func HashString(s string) uint64 {
	var h uint64 = 0xcbf29ce484222325
	for i := 0; i < len(s); i++ {
		h ^= uint64(s[i])
		h *= 0x100000001b3
	}
	return h
}

func rotl(x uint64, k uint) uint64 { return (x << k) | (x >> (64 - k)) }

func (r *RNG) Uint64() uint64 {
	res := rotl(r.s[1]*5, 7) * 9
	t := r.s[1] << 17
	r.s[2] ^= r.s[0]
	r.s[3] ^= r.s[1]
	r.s[1] ^= r.s[2]
	r.s[0] ^= r.s[3]
	r.s[2] ^= t
	r.s[3] = rotl(r.s[3], 45)
	return res
}

// Intn returns a value in [0,n). n<=0 yields 0.
func (r *RNG) Intn(n int) int {
	if n <= 1 {
		return 0
	}
	return int(r.Uint64() % uint64(n))
}

// Range returns a value in [lo,hi].
func (r *RNG) Range(lo, hi int) int {
	if hi <= lo {
		return lo
	}
	return lo + r.Intn(hi-lo+1)
}

func (r *RNG) Float() float64 { return float64(r.Uint64()>>11) / (1 << 53) }

func (r *RNG) Chance(p float64) bool { return r.Float() < p }

func (r *RNG) Pick(xs []string) string { return xs[r.Intn(len(xs))] }

func (r *RNG) PickInt(xs []int) int { return xs[r.Intn(len(xs))] }

func (r *RNG) Perm(n int) []int {
	p := make([]int, n)
	for i := range p {
		p[i] = i
	}
	for i := n - 1; i > 0; i-- {
		j := r.Intn(i + 1)
		p[i], p[j] = p[j], p[i]
	}
	return p
}

// Weighted picks an index with probability proportional to w[i].
func (r *RNG) Weighted(w []int) int {
	tot := 0
	for _, x := range w {
		tot += x
	}
	if tot <= 0 {
		return 0
	}
	k := r.Intn(tot)
	for i, x := range w {
		if k < x {
			return i
		}
		k -= x
	}
	return len(w) - 1
}
