// verifinst: source instrumentation of a scratch copy of zygomys (never
// committed to /repo). Two seams are introduced by AST rewriting, resolved
// by go/types (not by spelling):
//
//	maporder: every `range` over a map goes through verifmap.Seq2, so the
//	          simulator decides the iteration order;
//	oswall:   every use of a function of os, os/exec, io/ioutil, syscall,
//	          net, net/http, plugin goes through a generated shim in package
//	          verifos that logs the access and applies the scenario policy;
//	          fmt.Print* go to a capture buffer.
//
// usage: verifinst <repo-dir> <seam,seam>
package main

import (
	"bytes"
	"fmt"
	"go/ast"
	"go/format"
	"go/token"
	"go/types"
	"os"
	"path/filepath"
	"sort"
	"strings"

	"golang.org/x/tools/go/ast/astutil"
	"golang.org/x/tools/go/packages"
)

var wallPkgs = map[string]bool{"os": true, "os/exec": true, "io/ioutil": true, "syscall": true, "net": true, "net/http": true, "plugin": true,
	"os/user": true, "os/signal": true, "log/syslog": true, "net/smtp": true, "net/rpc": true, "net/mail": false}

// single functions of otherwise harmless packages that open files, read the environment or ask the system by themselves
var wallFuncs = map[string]map[string]bool{
	"time":          {"LoadLocation": true},
	"path/filepath": {"Glob": true, "Walk": true, "WalkDir": true, "EvalSymlinks": true, "Abs": true},
	"text/template": {"ParseFiles": true, "ParseGlob": true, "ParseFS": true},
	"html/template": {"ParseFiles": true, "ParseGlob": true, "ParseFS": true},
	"archive/zip":   {"OpenReader": true},
	"mime":          {"TypeByExtension": true, "ExtensionsByType": true},
	"crypto/x509":   {"SystemCertPool": true},
	"runtime/debug": {"WriteHeapDump": true},
}
var fmtFuncs = map[string]bool{"Print": true, "Printf": true, "Println": true}

const modPath = "github.com/glycerine/zygomys/v9"

func die(f string, a ...interface{}) {
	fmt.Fprintf(os.Stderr, "verifinst: "+f+"\n", a...)
	os.Exit(2)
}

type shim struct {
	name string // e.g. Os_Open
	op   string // e.g. os.Open
	sig  *types.Signature
	pkg  string
	fn   string
}

func main() {
	if len(os.Args) < 3 {
		die("usage: verifinst <repo-dir> <maporder|oswall>[,...]")
	}
	repo := os.Args[1]
	seams := map[string]bool{}
	for _, s := range strings.Split(os.Args[2], ",") {
		seams[s] = true
	}
	cfg := &packages.Config{
		Mode:       packages.NeedName | packages.NeedFiles | packages.NeedSyntax | packages.NeedTypes | packages.NeedTypesInfo | packages.NeedImports | packages.NeedDeps | packages.NeedCompiledGoFiles,
		Dir:        repo,
		BuildFlags: []string{"-tags=verif"},
		Env:        os.Environ(),
	}
	pkgs, err := packages.Load(cfg, "./zygo")
	if err != nil {
		die("load: %v", err)
	}
	if len(pkgs) != 1 {
		die("expected one package, got %d", len(pkgs))
	}
	pkg := pkgs[0]
	if len(pkg.Errors) > 0 {
		die("type errors in ./zygo: %v", pkg.Errors)
	}
	shims := map[string]*shim{}
	mapSites, mapNative, wallSites, fmtSites, stdSites := 0, 0, 0, 0, 0
	var siteList []string

	for i, file := range pkg.Syntax {
		fname := pkg.CompiledGoFiles[i]
		if strings.HasSuffix(fname, "_test.go") {
			continue
		}
		changed := false
		usedVerifmap, usedVerifos := false, false
		replaced := map[*ast.Ident]bool{}

		astutil.Apply(file, func(c *astutil.Cursor) bool {
			n := c.Node()
			switch x := n.(type) {
			case *ast.RangeStmt:
				if !seams["maporder"] {
					return true
				}
				tv, ok := pkg.TypesInfo.Types[x.X]
				if !ok {
					return true
				}
				mt, isMap := tv.Type.Underlying().(*types.Map)
				if !isMap {
					return true
				}
				kb, isBasic := mt.Key().Underlying().(*types.Basic)
				if !isBasic || (kb.Info()&(types.IsString|types.IsInteger)) == 0 {
					mapNative++
					pos := pkg.Fset.Position(x.Pos())
					siteList = append(siteList, fmt.Sprintf("native %s:%d key=%s", filepath.Base(pos.Filename), pos.Line, mt.Key()))
					return true
				}
				mapSites++
				pos := pkg.Fset.Position(x.Pos())
				siteList = append(siteList, fmt.Sprintf("site %d %s:%d", mapSites, filepath.Base(pos.Filename), pos.Line))
				x.X = &ast.CallExpr{
					Fun:  &ast.SelectorExpr{X: ast.NewIdent("verifmap"), Sel: ast.NewIdent("Seq2")},
					Args: []ast.Expr{x.X, &ast.BasicLit{Kind: token.INT, Value: fmt.Sprint(mapSites)}},
				}
				changed, usedVerifmap = true, true
			case *ast.SelectorExpr:
				if !seams["oswall"] {
					return true
				}
				id, ok := x.X.(*ast.Ident)
				if !ok {
					return true
				}
				pn, ok := pkg.TypesInfo.Uses[id].(*types.PkgName)
				if !ok {
					return true
				}
				path := pn.Imported().Path()
				obj := pkg.TypesInfo.Uses[x.Sel]
				fn, isFunc := obj.(*types.Func)
				if !isFunc {
					// the process's standard output and error as values (written to through methods or handed to
					// fmt.Fprint*): a file of the simulator's, read back after every evaluation
					if _, isVar := obj.(*types.Var); isVar && path == "os" && (x.Sel.Name == "Stdout" || x.Sel.Name == "Stderr") {
						c.Replace(&ast.CallExpr{Fun: &ast.SelectorExpr{X: ast.NewIdent("verifos"), Sel: ast.NewIdent("OutFile")}})
						changed, usedVerifos = true, true
						stdSites++
					}
					return true
				}
				if path == "fmt" && fmtFuncs[fn.Name()] {
					fmtSites++
				} else if wallPkgs[path] || wallFuncs[path][fn.Name()] {
					wallSites++
				} else {
					return true
				}
				sname := shimName(path, fn.Name())
				if _, have := shims[sname]; !have {
					shims[sname] = &shim{name: sname, op: path + "." + fn.Name(), sig: fn.Type().(*types.Signature), pkg: path, fn: fn.Name()}
				}
				replaced[id] = true
				c.Replace(&ast.SelectorExpr{X: ast.NewIdent("verifos"), Sel: ast.NewIdent(sname)})
				changed, usedVerifos = true, true
			}
			return true
		}, nil)

		if !changed {
			continue
		}
		if usedVerifmap {
			astutil.AddImport(pkg.Fset, file, modPath+"/zygo/verifmap")
		}
		if usedVerifos {
			astutil.AddImport(pkg.Fset, file, modPath+"/zygo/verifos")
		}
		// drop imports that have no remaining reference
		remaining := map[string]int{}
		ast.Inspect(file, func(n ast.Node) bool {
			if id, ok := n.(*ast.Ident); ok && !replaced[id] {
				if pn, ok := pkg.TypesInfo.Uses[id].(*types.PkgName); ok {
					remaining[pn.Imported().Path()]++
				}
			}
			return true
		})
		for _, imp := range append([]*ast.ImportSpec{}, file.Imports...) {
			p := strings.Trim(imp.Path.Value, "\"")
			if imp.Name != nil && (imp.Name.Name == "_" || imp.Name.Name == ".") {
				continue
			}
			if strings.HasSuffix(p, "/verifmap") || strings.HasSuffix(p, "/verifos") {
				continue
			}
			if remaining[p] == 0 {
				if imp.Name != nil {
					astutil.DeleteNamedImport(pkg.Fset, file, imp.Name.Name, p)
				} else {
					astutil.DeleteImport(pkg.Fset, file, p)
				}
			}
		}
		var buf bytes.Buffer
		if err := format.Node(&buf, pkg.Fset, file); err != nil {
			die("format %s: %v", fname, err)
		}
		if err := os.WriteFile(fname, buf.Bytes(), 0644); err != nil {
			die("write %s: %v", fname, err)
		}
	}

	if seams["maporder"] {
		if mapSites == 0 {
			die("maporder: found no map range to rewrite")
		}
		writeVerifmap(filepath.Join(repo, "zygo", "verifmap"), siteList)
	}
	if seams["oswall"] {
		if wallSites == 0 {
			die("oswall: found no outside-world call to rewrite")
		}
		writeVerifos(filepath.Join(repo, "zygo", "verifos"), shims)
	}
	sort.Strings(siteList)
	fmt.Printf("verifinst: map sites rewritten=%d left native=%d; outside-world uses rewritten=%d (distinct shims %d); fmt.Print* uses=%d, os.Stdout/Stderr values=%d\n", mapSites, mapNative, wallSites, len(shims), fmtSites, stdSites)
	for _, s := range siteList {
		if strings.HasPrefix(s, "native") {
			fmt.Println("  " + s)
		}
	}
}

func shimName(path, fn string) string {
	p := strings.NewReplacer("/", "_", ".", "_").Replace(path)
	return strings.ToUpper(p[:1]) + p[1:] + "_" + fn
}

func writeVerifmap(dir string, siteList []string) {
	os.MkdirAll(dir, 0755)
	var tbl strings.Builder
	for _, s := range siteList {
		var n int
		var pos string
		if c, _ := fmt.Sscanf(s, "site %d %s", &n, &pos); c == 2 {
			fmt.Fprintf(&tbl, "\t%d: %q,\n", n, pos)
		}
	}
	src := `// Code generated by verifinst. Map-order seam: the simulator decides the
// iteration order of every map range in package zygo.
package verifmap

import (
	"fmt"
	"iter"
	"sort"
)

// Native: range natively (the unmodified runtime's behaviour).
var Native = true

// Order decides the visiting order for the occ-th execution of range site
// 'site' over n keys (canonically sorted): it returns a permutation of 0..n-1.
// nil or a wrong-length result means canonical order.
var Order func(site, occ, n int) []int

// Hits counts executions per site.
var Hits = map[int]int{}

// Multi counts executions per site over a map of two or more keys (the only ones whose order can differ).
var Multi = map[int]int{}

// Sites: source position of every rewritten range site.
var Sites = map[int]string{
@SITES@}

func Seq2[K comparable, V any](m map[K]V, site int) iter.Seq2[K, V] {
	return func(yield func(K, V) bool) {
		if Native {
			for k, v := range m {
				if !yield(k, v) {
					return
				}
			}
			return
		}
		occ := Hits[site]
		Hits[site] = occ + 1
		keys := make([]K, 0, len(m))
		for k := range m {
			keys = append(keys, k)
		}
		sort.Slice(keys, func(i, j int) bool { return less(keys[i], keys[j]) })
		if len(keys) >= 2 {
			Multi[site]++
		}
		var perm []int
		if Order != nil {
			perm = Order(site, occ, len(keys))
		}
		for i := range keys {
			j := i
			if len(perm) == len(keys) {
				j = perm[i]
			}
			k := keys[j]
			v, ok := m[k]
			if !ok {
				continue // deleted during the loop: the spec allows skipping it
			}
			if !yield(k, v) {
				return
			}
		}
	}
}

func less(a, b any) bool {
	switch x := a.(type) {
	case string:
		return x < b.(string)
	case int:
		return x < b.(int)
	case int64:
		return x < b.(int64)
	case int32:
		return x < b.(int32)
	case uint64:
		return x < b.(uint64)
	}
	return fmt.Sprint(a) < fmt.Sprint(b)
}
`
	src = strings.Replace(src, "@SITES@", tbl.String(), 1)
	if err := os.WriteFile(filepath.Join(dir, "verifmap.go"), []byte(src), 0644); err != nil {
		die("%v", err)
	}
}

func writeVerifos(dir string, shims map[string]*shim) {
	os.MkdirAll(dir, 0755)
	var names []string
	for n := range shims {
		names = append(names, n)
	}
	sort.Strings(names)
	imports := map[string]bool{"fmt": true, "errors": true, "bytes": true, "os": true}
	var body bytes.Buffer
	qual := func(p *types.Package) string {
		imports[p.Path()] = true
		return p.Name()
	}
	for _, n := range names {
		s := shims[n]
		sig := s.sig
		var params, args, logargs []string
		for i := 0; i < sig.Params().Len(); i++ {
			p := sig.Params().At(i)
			t := types.TypeString(p.Type(), qual)
			an := fmt.Sprintf("a%d", i)
			if sig.Variadic() && i == sig.Params().Len()-1 {
				t = "..." + types.TypeString(p.Type().(*types.Slice).Elem(), qual)
				args = append(args, an+"...")
			} else {
				args = append(args, an)
			}
			params = append(params, an+" "+t)
			logargs = append(logargs, an)
		}
		var results []string
		errIdx := -1
		for i := 0; i < sig.Results().Len(); i++ {
			r := sig.Results().At(i)
			t := types.TypeString(r.Type(), qual)
			results = append(results, fmt.Sprintf("r%d %s", i, t))
			if t == "error" {
				errIdx = i
			}
		}
		imports[s.pkg] = true
		pkgName := s.pkg[strings.LastIndex(s.pkg, "/")+1:]
		fmt.Fprintf(&body, "func %s(%s) (%s) {\n", s.name, strings.Join(params, ", "), strings.Join(results, ", "))
		if s.pkg == "fmt" {
			// printed output is captured, never sent to the real stdout
			switch s.fn {
			case "Printf":
				fmt.Fprintf(&body, "\tr0, r1 = fmt.Fprintf(&Stdout, a0, a1...)\n\treturn\n}\n\n")
			case "Println":
				fmt.Fprintf(&body, "\tr0, r1 = fmt.Fprintln(&Stdout, a0...)\n\treturn\n}\n\n")
			default:
				fmt.Fprintf(&body, "\tr0, r1 = fmt.Fprint(&Stdout, a0...)\n\treturn\n}\n\n")
			}
			continue
		}
		fmt.Fprintf(&body, "\tif !Enter(%q, []interface{}{%s}) {\n", s.op, strings.Join(logargs, ", "))
		if errIdx >= 0 {
			fmt.Fprintf(&body, "\t\tr%d = ErrDenied\n", errIdx)
		}
		if s.op == "os/exec.Command" {
			fmt.Fprintf(&body, "\t\tr0 = exec.Command(\"/nonexistent/verif-denied\")\n")
		}
		fmt.Fprintf(&body, "\t\treturn\n\t}\n")
		if sig.Results().Len() > 0 {
			fmt.Fprintf(&body, "\treturn %s.%s(%s)\n}\n\n", pkgName, s.fn, strings.Join(args, ", "))
		} else {
			fmt.Fprintf(&body, "\t%s.%s(%s)\n}\n\n", pkgName, s.fn, strings.Join(args, ", "))
		}
	}
	var hdr bytes.Buffer
	hdr.WriteString("// Code generated by verifinst. Outside-world seam: every use of os, os/exec,\n// io/ioutil, syscall, net, net/http, plugin functions in package zygo goes through here.\npackage verifos\n\nimport (\n")
	var imps []string
	for p := range imports {
		imps = append(imps, p)
	}
	sort.Strings(imps)
	for _, p := range imps {
		fmt.Fprintf(&hdr, "\t%q\n", p)
	}
	hdr.WriteString(")\n\n")
	hdr.WriteString(`var _ = errors.New
var _ bytes.Buffer

// ErrDenied is returned by a shim whose access the policy refused.
var ErrDenied = errors.New("verifos: access denied by the simulated OS")

// ExitSentinel is the panic value that replaces os.Exit.
type ExitSentinel struct{ Code int }

// Access is one logged crossing of the wall.
type Access struct {
	Op   string
	Args []string
}

// Log is the complete access log of package zygo since the last Reset.
var Log []Access

// Stdout captures fmt.Print* output of package zygo.
var Stdout bytes.Buffer

// Policy decides whether an access proceeds. nil means allow (pass-through).
var Policy func(op string, args []string) bool

// OutFile stands for os.Stdout and os.Stderr where package zygo uses them as values.
var outFile *os.File

func OutFile() *os.File {
	if outFile == nil {
		f, err := os.CreateTemp("", "verifos-out-*")
		if err != nil {
			return os.Stderr
		}
		os.Remove(f.Name())
		outFile = f
	}
	return outFile
}

// Output: everything package zygo printed since the last Reset (fmt.Print* first, then what went to OutFile)
func Output() string {
	s := Stdout.String()
	if outFile != nil {
		if n, err := outFile.Seek(0, 1); err == nil && n > 0 {
			buf := make([]byte, n)
			outFile.ReadAt(buf, 0)
			s += string(buf)
		}
	}
	return s
}

func Reset() {
	Log = nil
	Stdout.Reset()
	if outFile != nil {
		outFile.Truncate(0)
		outFile.Seek(0, 0)
	}
}

// Enter logs the access and asks the policy. os.Exit never proceeds.
func Enter(op string, args []interface{}) bool {
	sargs := make([]string, len(args))
	for i, a := range args {
		sargs[i] = fmt.Sprint(a)
	}
	Log = append(Log, Access{Op: op, Args: sargs})
	if op == "os.Exit" {
		code := 0
		if len(args) == 1 {
			if c, ok := args[0].(int); ok {
				code = c
			}
		}
		panic(ExitSentinel{Code: code})
	}
	if Policy == nil {
		return true
	}
	return Policy(op, sargs)
}

`)
	hdr.Write(body.Bytes())
	out, err := format.Source(hdr.Bytes())
	if err != nil {
		os.WriteFile(filepath.Join(dir, "verifos.go.broken"), hdr.Bytes(), 0644)
		die("generated verifos does not format: %v", err)
	}
	if err := os.WriteFile(filepath.Join(dir, "verifos.go"), out, 0644); err != nil {
		die("%v", err)
	}
}
