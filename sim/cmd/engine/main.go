package main

import (
	"encoding/json"
	"flag"
	"fmt"
	"os"
	"runtime/debug"
	"syscall"
	"time"

	_ "verifsim/eng"
	"verifsim/kernel"
)

func usage() {
	fmt.Fprintln(os.Stderr, "usage: engine work|gen|exec-stdin|replay|minimise|plan ...")
	os.Exit(2)
}

// protocol output goes to the original stdout; the library's own prints
// (prompts, println, debug) are sent to /dev/null so they cannot corrupt it.
func muteStdout() *os.File {
	fd, err := syscall.Dup(1)
	if err != nil {
		return os.Stdout
	}
	orig := os.NewFile(uintptr(fd), "protocol")
	devnull, err := os.OpenFile("/dev/null", os.O_WRONLY, 0)
	if err == nil {
		syscall.Dup2(int(devnull.Fd()), 1)
	}
	return orig
}

func main() {
	if len(os.Args) < 2 {
		usage()
	}
	cmd := os.Args[1]
	fs := flag.NewFlagSet(cmd, flag.ExitOnError)
	prop := fs.String("prop", "", "property id")
	tier := fs.String("tier", "quick", "quick|thorough")
	seed := fs.Uint64("seed", 1, "VERIF_SEED")
	worker := fs.Int("worker", 0, "worker index")
	of := fs.Int("of", 1, "number of workers")
	from := fs.Int("from", 0, "first scenario index")
	to := fs.Int("to", 0, "one past last scenario index (0 = all)")
	out := fs.String("out", "", "output path")
	in := fs.String("in", "", "input scenario file")
	idx := fs.Int("index", 0, "scenario index (gen)")
	digests := fs.Bool("digests", false, "log per-scenario digests")
	key := fs.String("key", "", "violation key property|clause|site (minimise)")
	maxRuns := fs.Int("max-runs", 400, "minimiser candidate budget")
	maxSec := fs.Int("max-sec", 60, "minimiser wall budget")
	deadline := fs.Int("deadline-sec", 0, "stop generating after this many seconds (0 = none)")
	fs.Parse(os.Args[2:])

	proto := muteStdout()
	// Every evaluation runs under a VM step budget, which bounds script-level recursion far below this limit
	// (<= 2e5..5e5 steps, a few hundred bytes of Go stack per step at most). Recursion that still exhausts the
	// stack is therefore recursion inside the library that executes no VM step (e.g. walking a value that
	// contains itself); the smaller limit makes that fatal error arrive in seconds instead of half a minute.
	debug.SetMaxStack(512 << 20)
	kernel.Warmup(*prop)

	switch cmd {
	case "plan":
		p := kernel.PlanFor(*prop)
		if p == nil {
			fmt.Fprintln(os.Stderr, "no such property")
			os.Exit(2)
		}
		type partInfo struct {
			Name       string `json:"name"`
			Count      int    `json:"count"`
			Isolated   bool   `json:"isolated"`
			Exhaustive bool   `json:"exhaustive"`
		}
		var parts []partInfo
		for _, x := range p.Parts {
			ex := false
			if x.Exhaustive != nil {
				ex = x.Exhaustive(*tier)
			}
			parts = append(parts, partInfo{x.Name, x.Count(*tier), x.Isolated, ex})
		}
		b, _ := json.Marshal(map[string]interface{}{
			"property": p.Property, "level": p.Level, "rule": p.Rule, "total": p.Total(*tier),
			"parts": parts, "components": p.Components, "assumptions": p.Assume,
		})
		proto.Write(append(b, '\n'))
	case "work":
		var dl time.Time
		if *deadline > 0 {
			dl = time.Now().Add(time.Duration(*deadline) * time.Second)
		}
		kernel.Work(*prop, *tier, *seed, *worker, *of, *from, *to, *out, *digests, dl)
	case "gen":
		p := kernel.PlanFor(*prop)
		sc := p.GenScenario(*tier, *seed, *idx)
		b, _ := json.MarshalIndent(sc, "", " ")
		proto.Write(append(b, '\n'))
	case "exec-stdin":
		os.Stdout = proto
		kernel.ExecStdin()
	case "replay":
		b, err := os.ReadFile(*in)
		if err != nil {
			fmt.Fprintln(os.Stderr, err)
			os.Exit(2)
		}
		var sc kernel.Scenario
		if err := json.Unmarshal(b, &sc); err != nil {
			fmt.Fprintln(os.Stderr, err)
			os.Exit(2)
		}
		res := kernel.RunChild(&sc)
		ob, _ := json.Marshal(map[string]interface{}{"violations": res.Violations, "execs": res.Execs, "steps": res.Steps})
		proto.Write(append(ob, '\n'))
		if len(res.Violations) > 0 {
			os.Exit(1)
		}
	case "minimise":
		b, err := os.ReadFile(*in)
		if err != nil {
			fmt.Fprintln(os.Stderr, err)
			os.Exit(2)
		}
		var sc kernel.Scenario
		if err := json.Unmarshal(b, &sc); err != nil {
			fmt.Fprintln(os.Stderr, err)
			os.Exit(2)
		}
		min, runs := kernel.Minimise(&sc, *key, *maxRuns, time.Duration(*maxSec)*time.Second)
		min.Note = fmt.Sprintf("minimised with %d candidate executions", runs)
		ob, _ := json.MarshalIndent(min, "", " ")
		if err := os.WriteFile(*out, append(ob, '\n'), 0644); err != nil {
			fmt.Fprintln(os.Stderr, err)
			os.Exit(2)
		}
	default:
		usage()
	}
}
