package eng

import (
	"os"
	"path/filepath"
	"sort"
	"strings"
	"unicode/utf8"

	"verifsim/kernel"
)

// ---------------------------------------------------------------- corpus

var corpusCache []string
var corpusNames []string

// corpusDir: <dir of executable>/repo/tests (the scratch copy of the tree under test).
func corpusDir() string {
	if d := os.Getenv("VERIF_CORPUS"); d != "" {
		return d
	}
	exe, err := os.Executable()
	if err != nil {
		return "/repo/tests"
	}
	return filepath.Join(filepath.Dir(exe), "repo", "tests")
}

func corpus() ([]string, []string) {
	if corpusCache != nil {
		return corpusCache, corpusNames
	}
	files, _ := filepath.Glob(filepath.Join(corpusDir(), "*.zy"))
	sort.Strings(files)
	for _, f := range files {
		b, err := os.ReadFile(f)
		if err != nil || len(b) == 0 || len(b) > 16000 || !utf8.Valid(b) {
			continue
		}
		corpusCache = append(corpusCache, string(b))
		corpusNames = append(corpusNames, filepath.Base(f))
	}
	if corpusCache == nil {
		corpusCache = []string{"(+ 1 2)\n"}
		corpusNames = []string{"builtin"}
	}
	return corpusCache, corpusNames
}

// corpusChunk picks a run of whole lines from a corpus script that starts at a
// top-level form (a line beginning with '(' or '{') — shorter texts make more cuts affordable.
func corpusChunk(r *kernel.RNG, maxLines int) string {
	cs, _ := corpus()
	lines := strings.SplitAfter(cs[r.Intn(len(cs))], "\n")
	var starts []int
	for i, l := range lines {
		if strings.HasPrefix(l, "(") || strings.HasPrefix(l, "{") {
			starts = append(starts, i)
		}
	}
	if len(starts) == 0 {
		return strings.Join(lines, "")
	}
	s := starts[r.Intn(len(starts))]
	e := s + r.Range(1, maxLines)
	if e > len(lines) {
		e = len(lines)
	}
	return strings.Join(lines[s:e], "")
}

// ---------------------------------------------------------------- generated texts

var tgSyms = []string{"a", "b", "foo", "x1", "long-name", "q?", "b.c", "a.b.c", ".x", "nil", "true", "false", "$", "&", "hget", "def", "fn"}
var tgKeys = []string{"a:", "key:", "b2:"}
var tgNums = []string{"0", "1", "-1", "42", "-7", "1_000", "0x1F", "0o17", "0b101", "1.5", "-2.5", ".5", "1e3", "1e-3", "-2.5e+3", "1E10", "3ULL", "0xffULL", "1.", "NaN", "9223372036854775807", "7__ULL", "1__0", "0x_1", "1_", "0b_1", "1_ULL", "0x1_ULL", "3___ULL", "0o7_ULL", "1_000ULL", "_", "1__", "0x", "0b", "1e", "1e+", "-", "+", "-.", "1.5.2", "0x1.8", "1_e3", "1e_3"}
var tgStrs = []string{"\"p\n\nq\"", `""`, `"s"`, `"a b"`, `"a\"b"`, `"x\\y"`, `"tab\there"`, `"nl\nx"`, `"((("`, `"]})"`, `"// not a comment"`, `"/* nor this */"`, "\"tick ` tick\"", `"é世界"`, `"'q'"`, `"a\#b"`, "\"one\r\ntwo\"", "\"cr\rlf\"", "\"\r\n\"", "\"a\uFEFFb\"", "\"\uFEFF\"", "\"n\x00l\""}
var tgRaws = []string{"``", "`raw`", "`raw \"q\" (`", "`two\nlines`", "`// c`", "`a\\b`", "`]}`", "`first\n\nthird`", "`\n`", "`a\n\n\nb\n`", "`r1\r\nr2`", "`\r\n`", "`a\uFEFFb`"}
var tgChars = []string{"'a'", "'Z'", "'('", "'\\n'", "'\\''", "'\"'", "' '", "'é'"}
var tgOps = []string{"+", "-", "*", "/", "<", "<=", ">", ">=", "==", "!=", "**", "and", "or", "not", "mod"}
var tgInfixOps = []string{"+", "-", "*", "/", "<", "<=", ">", ">=", "==", "!=", "**", "=", ":=", "+=", "-=", "&&", "||"}
var tgComments = []string{"// c\n", "// ( \" [ {\n", "/* b */", "/* ( \" \n ] */", "/**/", "/* * / */", "//\n", "/* x\n\n y */", "/*\n\n*/", "// c\r\n", "/* a\r\nb */", "/* c **/", "/***/", "/* ** */", "/* * **/", "/* a\uFEFFb */", "// \uFEFF\n"}
var tgWs = []string{" ", " ", " ", "\n", "  ", "\t", "\r\n", " \n "}

type textGen struct {
	r     *kernel.RNG
	depth int
	// swarm switches
	noComments, noInfix, noRaw, tight bool
}

func (g *textGen) ws() string {
	if !g.noComments && g.r.Chance(0.1) {
		return " " + g.r.Pick(tgComments) + g.r.Pick(tgWs)
	}
	return g.r.Pick(tgWs)
}

func (g *textGen) atom() string {
	switch g.r.Weighted([]int{6, 6, 3, 2, 2, 1}) {
	case 0:
		return g.r.Pick(tgSyms)
	case 1:
		return g.r.Pick(tgNums)
	case 2:
		return g.r.Pick(tgStrs)
	case 3:
		if g.noRaw {
			return g.r.Pick(tgStrs)
		}
		return g.r.Pick(tgRaws)
	case 4:
		return g.r.Pick(tgChars)
	}
	return "%" + g.r.Pick(tgSyms)
}

func (g *textGen) expr(d int) string {
	if d >= g.depth {
		return g.atom()
	}
	switch g.r.Weighted([]int{5, 6, 3, 3, 2, 2, 1}) {
	case 0:
		return g.atom()
	case 1: // list
		n := g.r.Range(0, 4)
		var sb strings.Builder
		sb.WriteString("(")
		if g.r.Chance(0.8) {
			if g.r.Chance(0.5) {
				sb.WriteString(g.r.Pick(tgOps))
			} else {
				sb.WriteString(g.r.Pick(tgSyms))
			}
			sb.WriteString(g.ws())
		}
		for i := 0; i < n; i++ {
			if g.r.Chance(0.15) {
				sb.WriteString(g.r.Pick(tgKeys))
				if g.r.Chance(0.5) {
					sb.WriteString(" ")
				}
			}
			sb.WriteString(g.expr(d + 1))
			if i < n-1 || g.r.Chance(0.2) {
				sb.WriteString(g.ws())
			}
		}
		sb.WriteString(")")
		return sb.String()
	case 2: // array
		n := g.r.Range(0, 4)
		var sb strings.Builder
		sb.WriteString("[")
		for i := 0; i < n; i++ {
			sb.WriteString(g.expr(d + 1))
			if i < n-1 {
				if g.r.Chance(0.3) {
					sb.WriteString(", ")
				} else {
					sb.WriteString(g.ws())
				}
			}
		}
		sb.WriteString("]")
		return sb.String()
	case 3: // infix block
		if g.noInfix {
			return g.atom()
		}
		n := g.r.Range(1, 4)
		var sb strings.Builder
		sb.WriteString("{")
		if g.r.Chance(0.2) {
			sb.WriteString(g.ws())
		}
		for i := 0; i < n; i++ {
			sb.WriteString(g.operand(d + 1))
			if i < n-1 {
				op := g.r.Pick(tgInfixOps)
				if g.tight || g.r.Chance(0.3) {
					sb.WriteString(op)
				} else {
					sb.WriteString(" " + op + " ")
				}
			}
		}
		if g.r.Chance(0.2) {
			sb.WriteString("; " + g.operand(d+1))
		}
		sb.WriteString("}")
		return sb.String()
	case 4: // JSON-style hash
		n := g.r.Range(0, 3)
		var sb strings.Builder
		sb.WriteString("{")
		if g.r.Chance(0.25) {
			sb.WriteString(g.ws()) // (a comment, also one of several lines, may stand right behind the brace)
		}
		for i := 0; i < n; i++ {
			if g.r.Chance(0.5) {
				sb.WriteString(g.r.Pick([]string{`"k"`, `"key two"`, "`rk`"}) + ":")
			} else {
				sb.WriteString(g.r.Pick(tgKeys))
			}
			if g.r.Chance(0.5) {
				sb.WriteString(" ")
			}
			sb.WriteString(g.expr(d + 1))
			if i < n-1 {
				sb.WriteString(g.r.Pick([]string{", ", " ", "\n"}))
			}
		}
		sb.WriteString("}")
		return sb.String()
	case 5: // quote / syntax-quote
		switch g.r.Intn(4) {
		case 0:
			return "%" + g.expr(d+1)
		case 1:
			return "^" + g.expr(d+1)
		case 2:
			return "^(" + g.r.Pick(tgSyms) + " ~" + g.r.Pick(tgSyms) + " ~@" + g.r.Pick(tgSyms) + ")"
		}
		// unquote and unquote-splicing of any operand, with and without a blank in between
		return g.r.Pick([]string{"~", "~@", "~ ", "~@ ", "~", "~"}) + g.expr(d+1)
	}
	return g.atom()
}

func (g *textGen) operand(d int) string {
	switch g.r.Weighted([]int{5, 4, 2, 1, 1, 1}) {
	case 0:
		return g.r.Pick([]string{"a", "b", "x1", "foo"})
	case 1:
		return g.r.Pick([]string{"1", "2", "-3", "4.5", "1e3", "-1e-2", "0x10"})
	case 2:
		return "(" + g.r.Pick(tgSyms) + " " + g.atom() + ")"
	case 3:
		return "a[" + g.r.Pick([]string{"0", "1", "i", "1:2", ":2", "1:"}) + "]"
	case 4:
		return g.r.Pick(tgStrs)
	}
	if d < g.depth {
		return g.expr(d + 1)
	}
	return "b"
}

// genText builds a text of 1..n top-level forms. It always ends with a
// delimiter-terminated form unless bareTail is drawn (C13.L exercises bare tails itself).
func genText(r *kernel.RNG, maxForms, depth int) string {
	g := &textGen{r: r, depth: depth, noComments: r.Chance(0.3), noInfix: r.Chance(0.3), noRaw: r.Chance(0.3), tight: r.Chance(0.3)}
	n := r.Range(1, maxForms)
	var sb strings.Builder
	if r.Chance(0.1) {
		sb.WriteString(g.ws())
	}
	for i := 0; i < n; i++ {
		sb.WriteString(g.expr(0))
		sb.WriteString(g.ws())
	}
	return sb.String()
}

// ---------------------------------------------------------------- reference scanner

// scanState is what an independent reading of the lexical grammar says about a text.
type scanState struct {
	Depth      int  // open brackets
	InString   bool // inside "..."
	InRaw      bool // inside `...`
	InBlock    bool // inside /* ... */
	InLine     bool // inside // ... (no newline yet)
	InRune     bool // inside '...'
	Mismatch   bool // a closer that does not match the innermost opener / stray closer
	TrailAtom  bool // text ends inside an atom (no delimiter after the last token)
	TrailOp    bool // text ends right after a prefix operator or inside an operator
	PendingPre bool // a prefix operator (quote, syntax-quote, unquote, unquote-splicing) still waits for its operand
	LastSignif rune
}

// Unfinished: the text so far is an unfinished prefix in the sense of C13.
func (s scanState) Unfinished() bool {
	return s.Depth > 0 || s.InString || s.InRaw || s.InBlock
}

func refScan(text string) scanState {
	var st scanState
	var stack []rune
	rs := []rune(text)
	atomStart := true // previous rune was a delimiter
	i := 0
	for i < len(rs) {
		c := rs[i]
		switch {
		case st.InLine:
			if c == '\n' {
				st.InLine = false
				atomStart = true
			}
			i++
			continue
		case st.InBlock:
			if c == '*' && i+1 < len(rs) && rs[i+1] == '/' {
				st.InBlock = false
				atomStart = true
				i += 2
				continue
			}
			i++
			continue
		case st.InString:
			if c == '\\' {
				i += 2
				if i > len(rs) {
					i = len(rs)
				}
				continue
			}
			if c == '"' {
				st.InString = false
				atomStart = true
			}
			i++
			continue
		case st.InRaw:
			if c == '`' {
				st.InRaw = false
				atomStart = true
			}
			i++
			continue
		case st.InRune:
			if c == '\\' {
				i += 2
				if i > len(rs) {
					i = len(rs)
				}
				continue
			}
			if c == '\'' {
				st.InRune = false
				atomStart = true
			}
			i++
			continue
		}
		st.TrailAtom = false
		st.TrailOp = false
		if !strings.ContainsRune(" \t\n\r,", c) && !strings.ContainsRune("%^~@", c) {
			st.PendingPre = false
		}
		switch c {
		case '/':
			if i+1 < len(rs) && rs[i+1] == '/' {
				st.InLine = true
				i += 2
				continue
			}
			if i+1 < len(rs) && rs[i+1] == '*' {
				st.InBlock = true
				i += 2
				continue
			}
			st.TrailOp = true
			atomStart = true
		case '"':
			st.InString = true
		case '`':
			st.InRaw = true
		case '\'':
			if atomStart {
				st.InRune = true
			}
		case '(', '[', '{':
			stack = append(stack, c)
			atomStart = true
		case ')', ']', '}':
			want := map[rune]rune{')': '(', ']': '[', '}': '{'}[c]
			if len(stack) == 0 || stack[len(stack)-1] != want {
				st.Mismatch = true
			} else {
				stack = stack[:len(stack)-1]
			}
			atomStart = true
		case ' ', '\t', '\n', '\r', ',', ';':
			atomStart = true
		case '%', '^', '~', '@':
			st.TrailOp = true
			st.PendingPre = true
			atomStart = true
		case '+', '-', '*', '<', '>', '=', '!', '&', '|', ':':
			st.TrailOp = true
			atomStart = true
		default:
			st.TrailAtom = true
			atomStart = false
		}
		st.LastSignif = c
		i++
	}
	st.Depth = len(stack)
	return st
}

// ---------------------------------------------------------------- shrinking text

func shrinkText(s string, max int) []string {
	rs := []rune(s)
	n := len(rs)
	var out []string
	seen := map[string]bool{s: true}
	add := func(t string) {
		if !seen[t] && len(out) < max {
			seen[t] = true
			out = append(out, t)
		}
	}
	// whole lines first
	lines := strings.SplitAfter(s, "\n")
	if len(lines) > 1 {
		for _, chunk := range []int{len(lines) / 2, len(lines) / 4, 1} {
			if chunk < 1 {
				continue
			}
			for i := 0; i+chunk <= len(lines); i += chunk {
				add(strings.Join(lines[:i], "") + strings.Join(lines[i+chunk:], ""))
			}
		}
	}
	for _, chunk := range []int{n / 2, n / 4, n / 8, 4, 2, 1} {
		if chunk < 1 {
			continue
		}
		for i := 0; i+chunk <= n; i += chunk {
			add(string(rs[:i]) + string(rs[i+chunk:]))
		}
	}
	return out
}
