package eng

import (
	"fmt"
	"strings"

	"verifsim/kernel"
)

// Program generator for the `vmsession` engine: a seeded grammar over the
// core language with host-call probes (hf n) sprinkled at every nesting
// level, so that "the k-th host call" ranges over every evaluation context.

type vmForm struct {
	Text string `json:"t"`
	Eff  bool   `json:"eff,omitempty"`  // may change global state before a later probe of the same form
	Fail bool   `json:"fail,omitempty"` // expected to fail natively (no injection needed)
}

type fnInfo struct {
	name  string
	arity int
	eff   bool
	lazy  bool // first parameter is lazy
}

type progGen struct {
	r       *kernel.RNG
	maxD    int
	probeN  int
	globals []string // defined int globals
	hashes  []string
	arrays  []string
	fns     []fnInfo
	macros  []string
	locals  []string
	inLoop  int
	labels  []string
	eff     bool // set when the form under construction performs a mid-form global effect
	usedEff bool
	noFail  bool
	decls   bool // allow declaration forms (C04)
	haveThunkMaker bool
	thunks         []string
	files          map[string]string // simulated-disk files referenced by (source ...)
	noInclude      bool              // (include is compiled in place: not for programs whose files change between forms)
	havePkg        bool
	// swarm weights
	w []int
}

func newProgGen(r *kernel.RNG) *progGen {
	g := &progGen{r: r, maxD: r.Range(2, 5)}
	g.w = make([]int, 42)
	for i := range g.w {
		g.w[i] = r.Range(0, 4)
	}
	g.w[0] = 4 // literals
	g.w[1] = 5 // probes
	return g
}

func (g *progGen) probe() string {
	g.probeN++
	return fmt.Sprintf("(hf %d)", g.probeN)
}

func (g *progGen) lit() string { return fmt.Sprint(g.r.Range(0, 9)) }

func (g *progGen) atom() string {
	switch g.r.Weighted([]int{3, 4, 3, 2}) {
	case 0:
		return g.lit()
	case 1:
		return g.probe()
	case 2:
		if len(g.locals) > 0 {
			return g.locals[g.r.Intn(len(g.locals))]
		}
	case 3:
		if len(g.globals) > 0 {
			return g.globals[g.r.Intn(len(g.globals))]
		}
	}
	return g.lit()
}

func (g *progGen) cond(d int) string {
	switch g.r.Intn(6) {
	case 0:
		return fmt.Sprintf("(< %s %s)", g.e(d+1), g.e(d+1))
	case 1:
		return fmt.Sprintf("(== %s %s)", g.e(d+1), g.lit())
	case 2:
		return fmt.Sprintf("(and (< %s 5) (>= %s 0))", g.e(d+1), g.e(d+1))
	case 3:
		return fmt.Sprintf("(or (> %s 7) (not (== %s 3)))", g.e(d+1), g.e(d+1))
	case 4:
		return "true"
	}
	return "false"
}

func (g *progGen) withLocal(name string, f func() string) string {
	g.locals = append(g.locals, name)
	s := f()
	g.locals = g.locals[:len(g.locals)-1]
	return s
}

var localNames = []string{"a", "b", "c", "x", "y"}

// e: an int-valued expression
func (g *progGen) e(d int) string {
	if d >= g.maxD {
		return g.atom()
	}
	w := append([]int{}, g.w[:42]...)
	if len(g.fns) == 0 {
		w[8], w[10], w[11], w[13] = 0, 0, 0, 0
	}
	if len(g.macros) == 0 {
		w[14] = 0
	}
	if len(g.hashes) == 0 {
		w[22] = 0
	}
	if proggenNoClock {
		w[41] = 0
	}
	switch g.r.Weighted(w) {
	case 0:
		return g.lit()
	case 1:
		return g.probe()
	case 2, 3:
		return g.atom()
	case 4:
		return fmt.Sprintf("(%s %s %s)", g.r.Pick([]string{"+", "-", "*", "+"}), g.e(d+1), g.e(d+1))
	case 5:
		if g.r.Chance(0.5) {
			return fmt.Sprintf("(cond %s %s %s)", g.cond(d), g.e(d+1), g.e(d+1))
		}
		return fmt.Sprintf("(cond %s %s %s %s %s)", g.cond(d), g.e(d+1), g.cond(d), g.e(d+1), g.e(d+1))
	case 6:
		n1, n2 := g.r.Pick(localNames), g.r.Pick(localNames)
		kind := g.r.Pick([]string{"let", "letseq"})
		v1, v2 := g.e(d+1), g.e(d+1)
		if kind == "letseq" && n1 != n2 && g.r.Chance(0.5) {
			v2 = fmt.Sprintf("(+ %s 1)", n1)
		}
		body := g.withLocal(n1, func() string { return g.withLocal(n2, func() string { return g.body(d + 1) }) })
		if n1 == n2 {
			if g.r.Chance(0.4) {
				// one name bound twice (and once more behind another name)
				if g.r.Chance(0.5) {
					return fmt.Sprintf("(%s [%s %s %s %s] %s)", kind, n1, v1, n2, v2, body)
				}
				return fmt.Sprintf("(%s [%s %s zq 5 %s %s] %s)", kind, n1, v1, n2, v2, body)
			}
			return fmt.Sprintf("(%s [%s %s] %s)", kind, n1, v1, body)
		}
		return fmt.Sprintf("(%s [%s %s %s %s] %s)", kind, n1, v1, n2, v2, body)
	case 7:
		return fmt.Sprintf("(%s %s)", g.r.Pick([]string{"newScope", "begin"}), g.body(d+1))
	case 8:
		f := g.fns[g.r.Intn(len(g.fns))]
		return g.call(f, d)
	case 9:
		n := g.r.Pick(localNames)
		body := g.withLocal(n, func() string { return g.e(d + 1) })
		return fmt.Sprintf("((fn [%s] %s) %s)", n, body, g.e(d+1))
	case 10:
		f := g.fns[g.r.Intn(len(g.fns))]
		if f.lazy {
			return g.call(f, d)
		}
		if f.eff {
			g.eff = true
		}
		args := make([]string, f.arity)
		for i := range args {
			args[i] = g.e(d + 1)
		}
		return fmt.Sprintf("(apply %s [%s])", f.name, strings.Join(args, " "))
	case 11:
		var one []fnInfo
		for _, f := range g.fns {
			if f.arity == 1 && !f.lazy {
				one = append(one, f)
			}
		}
		if len(one) == 0 {
			return g.atom()
		}
		f := one[g.r.Intn(len(one))]
		if f.eff {
			g.eff = true
		}
		return fmt.Sprintf("(aget (map %s [%s %s]) %d)", f.name, g.e(d+1), g.e(d+1), g.r.Intn(2))
	case 12:
		return fmt.Sprintf("(eval (quote %s))", g.e(d+1))
	case 13:
		// a lazily bound argument forced (or not) later
		for _, f := range g.fns {
			if f.lazy {
				return g.call(f, d)
			}
		}
		return g.atom()
	case 14:
		return fmt.Sprintf("(%s %s)", g.macros[g.r.Intn(len(g.macros))], g.e(d+1))
	case 15:
		return fmt.Sprintf("{ %s + %s * 2 }", g.infixOperand(d), g.infixOperand(d))
	case 16:
		return g.loopSum(d)
	case 17:
		return g.nestedLoops(d)
	case 18:
		return fmt.Sprintf("(hget (hash a: %s b: %s) %s)", g.e(d+1), g.e(d+1), g.r.Pick([]string{"a:", "b:"}))
	case 19:
		return fmt.Sprintf("(hb %d %s)", g.r.Range(1, 9), g.e(d+1))
	case 20:
		return fmt.Sprintf("(hm %s)", g.e(d+1))
	case 21:
		return fmt.Sprintf("(len (concat \"ab\" (str %s)))", g.e(d+1))
	case 22:
		h := g.hashes[g.r.Intn(len(g.hashes))]
		return fmt.Sprintf("(hget %s a: %s)", h, g.e(d+1))
	case 23:
		n := g.r.Pick(localNames)
		return fmt.Sprintf("(let [%s %s] ((fn [] (+ %s %s))))", n, g.e(d+1), n, g.withLocal(n, func() string { return g.e(d + 1) }))
	case 24:
		return fmt.Sprintf("(aget [%s %s %s] %d)", g.e(d+1), g.e(d+1), g.e(d+1), g.r.Intn(3))
	case 25:
		return fmt.Sprintf("(first (list %s %s))", g.e(d+1), g.e(d+1))
	case 26:
		return fmt.Sprintf("(begin (assert (< %s 1000000)) %s)", g.e(d+1), g.e(d+1))
	case 27:
		// a syntax-quote template with an unquoted probe, evaluated
		return fmt.Sprintf("(eval (syntaxQuote (+ (unquote %s) 1)))", g.e(d+1))
	case 28:
		return fmt.Sprintf("((fn [] (mdef xa xb (list %s %s)) (+ xa xb)))", g.e(d+1), g.e(d+1))
	case 29:
		return fmt.Sprintf("(apply + [%s %s])", g.e(d+1), g.e(d+1))
	case 30:
		return fmt.Sprintf("(len (append [1] %s))", g.e(d+1))
	case 35:
		// range over a hash with a probe in the body
		return fmt.Sprintf("(let [acc 0] (range k v (hash a: 1 b: 2 c: 3) (set acc (+ acc v %s))) acc)", g.e(d+1))
	case 36:
		// go-style range and if/else chain in an infix block
		return fmt.Sprintf("(let [acc 0 hh (hash a: 1 b: 2)] {for k, v := range hh { if v > 1 { acc = acc + %s } else if v > 5 { acc = 0 } else { acc = acc + 1 } }} acc)", g.infixOperand(d))
	case 37:
		// nested macro use: a host macro inside a user macro's argument
		if len(g.macros) > 0 {
			return fmt.Sprintf("(%s (hm %s))", g.macros[g.r.Intn(len(g.macros))], g.e(d+1))
		}
		return fmt.Sprintf("(hm (hm %s))", g.e(d+1))
	case 33:
		// a hash key given as a list is evaluated by the builtin itself (re-entering the VM); with a default value supplied
		return fmt.Sprintf("(hget (hash a: 1 2: 7) (quote %s) %s)", g.e(d+1), g.e(d+1))
	case 34:
		return fmt.Sprintf("(let [hk (hash 3: 5)] (hset hk %s 1) (hget hk (quote %s) 0))", g.lit(), g.e(d+1))
	case 32:
		// the host calls a script function back through the public Apply API
		n := g.r.Pick(localNames)
		body := g.withLocal(n, func() string { return g.e(d + 1) })
		return fmt.Sprintf("(hc (fn [%s] %s) %s)", n, body, g.e(d+1))
	case 31:
		n := g.r.Pick(localNames)
		return fmt.Sprintf("(let [%s (hash a: 1)] (hset %s b: %s) (hget %s b:))", n, n, g.e(d+1), n)
	case 38:
		// an array index given as a list is evaluated by aget itself (re-entering the VM)
		return fmt.Sprintf("(aget [%s 7 9] (quote (cond (< %s 0) 1 0)))", g.e(d+1), g.e(d+1))
	case 39:
		// colon access: the builder evaluates the collection and the default itself
		if g.r.Chance(0.5) {
			return fmt.Sprintf("(:a (hash a: %s))", g.e(d+1))
		}
		return fmt.Sprintf("(:zz (hash a: 1) %s)", g.e(d+1))
	case 40:
		// map over a list applies the function element by element from Go
		n := g.r.Pick(localNames)
		body := g.withLocal(n, func() string { return g.e(d + 1) })
		return fmt.Sprintf("(first (map (fn [%s] %s) (list %s %s)))", n, body, g.e(d+1), g.e(d+1))
	case 41:
		// timeit applies a thunk a given number of times from Go
		return fmt.Sprintf("(begin (timeit (fn [] %s) %d) %s)", g.e(d+1), g.r.Range(1, 3), g.e(d+1))
	}
	return g.atom()
}

// selfCtx: a place for an int-valued form inside a function body, the form's value being the context's value
// up to arithmetic (the generators only need an int back)
var selfCtxs = []string{"%s", "%s", "(let [] %s)", "(letseq [] %s)", "(let [] 1 %s)", "(+ 1 %s)", "(let [p 1 q %s] q)", "(letseq [p 1 q %s] (+ p q))", "(aget [1 %s] 1)", "(begin 1 %s)", "(newScope %s)",
	"(first (list %s 2))", "(hget (hash a: %s) a:)", "(and true %s)", "(or false %s)", "(cond true %s 0)", "(let [p %s] p)", "((fn [z] z) %s)", "{ 1 + %s }", "(* 1 %s)",
	"(let [p 1] (let [q %s] (+ p q)))", "(aget (array 1 %s) 1)", "(len (list %s))"}

func (g *progGen) selfCtx(inner string) string {
	return fmt.Sprintf(g.r.Pick(selfCtxs), inner)
}

func (g *progGen) infixOperand(d int) string {
	switch g.r.Intn(4) {
	case 0:
		return g.lit()
	case 1:
		return g.probe()
	case 2:
		if len(g.locals) > 0 {
			return g.locals[g.r.Intn(len(g.locals))]
		}
	}
	return "(+ " + g.e(d+1) + " 1)"
}

func (g *progGen) call(f fnInfo, d int) string {
	if f.eff {
		g.eff = true
	}
	args := make([]string, f.arity)
	for i := range args {
		args[i] = g.e(d + 1)
	}
	return fmt.Sprintf("(%s %s)", f.name, strings.Join(args, " "))
}

// body: zero or more statements followed by a value expression
func (g *progGen) body(d int) string {
	var sb strings.Builder
	n := g.r.Intn(3)
	for i := 0; i < n; i++ {
		sb.WriteString(g.stmt(d))
		sb.WriteString(" ")
	}
	sb.WriteString(g.e(d))
	return sb.String()
}

// stmt: evaluated for effect inside a body
func (g *progGen) stmt(d int) string {
	switch g.r.Weighted([]int{4, 2, 2, 1, 1}) {
	case 0:
		return g.probe()
	case 1:
		if len(g.locals) > 0 {
			l := g.locals[g.r.Intn(len(g.locals))]
			return fmt.Sprintf("(set %s %s)", l, g.e(d+1))
		}
	case 2:
		if d+1 < g.maxD {
			return g.loopStmt(d + 1)
		}
	case 3:
		if g.usedEff && len(g.globals) > 0 {
			g.eff = true
			return fmt.Sprintf("(set %s %s)", g.globals[g.r.Intn(len(g.globals))], g.e(d+1))
		}
	case 4:
		if g.usedEff && len(g.hashes) > 0 {
			g.eff = true
			return fmt.Sprintf("(hset %s a: %s)", g.hashes[g.r.Intn(len(g.hashes))], g.e(d+1))
		}
	}
	return g.e(d + 1)
}

func (g *progGen) loopCtl(iv string) string {
	switch g.r.Intn(5) {
	case 0:
		return fmt.Sprintf("(cond (== %s 1) (continue) 0)", iv)
	case 1:
		return fmt.Sprintf("(cond (== %s 2) (break) 0)", iv)
	case 2:
		return fmt.Sprintf("(cond (== %s 0) (continue) (== %s 2) (break) 0)", iv, iv)
	case 3:
		return fmt.Sprintf("(let [z %s] (cond (== z 1) (continue) 0))", iv)
	}
	return ""
}

// loopCtl2: break/continue reached through and/or operands and nested scopes
func (g *progGen) loopCtl2(iv string) string {
	switch g.r.Intn(10) {
	case 5:
		// in a cond predicate
		return fmt.Sprintf("(let [z %s] (cond (and (== z 1) (break)) 1 2))", iv)
	case 6:
		return fmt.Sprintf("(let [z %s] (cond (or (!= z 0) (continue)) 1 2))", iv)
	case 7:
		// in a binding, an argument, an element
		return fmt.Sprintf("(letseq [z %s y (cond (== z 1) (break) 0)] y)", iv)
	case 8:
		return fmt.Sprintf("(newScope (+ 1 (cond (== %s 1) (continue) 0)))", iv)
	case 9:
		return fmt.Sprintf("(let [z %s] [1 (cond (== z 2) (break) 0)])", iv)
	case 0:
		return fmt.Sprintf("(let [z %s] (and (== z 1) (continue) 1))", iv)
	case 1:
		return fmt.Sprintf("(let [z %s] (or (< z 2) (break) 1))", iv)
	case 2:
		return fmt.Sprintf("(newScope (and (== %s 0) (continue)))", iv)
	case 3:
		return fmt.Sprintf("(letseq [z %s y z] (cond (== y 2) (break) (== y 0) (continue) 0))", iv)
	case 4:
		return fmt.Sprintf("(let [z %s] (let [y z] (or (!= y 1) (continue))))", iv)
	}
	return ""
}

func (g *progGen) loopStmt(d int) string {
	iv := g.r.Pick([]string{"i", "j"})
	k := g.r.Range(1, 3)
	g.inLoop++
	body := g.withLocal(iv, func() string {
		if g.r.Chance(0.3) {
			return g.loopCtl2(iv) + " " + g.stmt(d+1)
		}
		return g.loopCtl(iv) + " " + g.stmt(d+1)
	})
	g.inLoop--
	return fmt.Sprintf("(for [(def %s 0) (< %s %d) (def %s (+ %s 1))] %s)", iv, iv, k, iv, iv, body)
}

func (g *progGen) loopSum(d int) string {
	iv := g.r.Pick([]string{"i", "j"})
	k := g.r.Range(1, 3)
	inner := g.withLocal("s", func() string {
		return g.withLocal(iv, func() string {
			if g.r.Chance(0.3) {
				return g.loopCtl2(iv) + fmt.Sprintf(" (set s (+ s %s))", g.e(d+2))
			}
			return g.loopCtl(iv) + fmt.Sprintf(" (set s (+ s %s))", g.e(d+2))
		})
	})
	return fmt.Sprintf("(let [s 0] (for [(def %s 0) (< %s %d) (def %s (+ %s 1))] %s) s)", iv, iv, k, iv, iv, inner)
}

// nestedLoops2: a scope (let/letseq/newScope) between the labelled outer loop and the inner loop
func (g *progGen) nestedLoops2(d int) string {
	ctl := g.r.Pick([]string{
		"(cond (== j 1) (break outer:) 0)",
		"(cond (== j 1) (continue outer:) 0)",
		"(cond (== j 0) (continue inner:) (== i 1) (break outer:) 0)",
		"(let [q j] (cond (== q 1) (continue outer:) 0))",
	})
	wrap := g.r.Pick([]string{"(let [q i] %s)", "(letseq [q i r q] %s)", "(newScope %s)", "(let [q i] (let [r q] %s))", "(begin (let [q 1] %s))"})
	inner := g.withLocal("s", func() string {
		return g.withLocal("i", func() string {
			return g.withLocal("j", func() string { return fmt.Sprintf("(set s (+ s %s))", g.e(d+2)) })
		})
	})
	innerLoop := fmt.Sprintf("(for inner: [(def j 0) (< j 2) (def j (+ j 1))] %s %s)", ctl, inner)
	return fmt.Sprintf("(let [s 0] (for outer: [(def i 0) (< i 2) (def i (+ i 1))] %s) s)", fmt.Sprintf(wrap, innerLoop))
}

func (g *progGen) nestedLoops(d int) string {
	if g.r.Chance(0.4) {
		return g.nestedLoops2(d)
	}
	ctl := g.r.Pick([]string{
		"(cond (== j 1) (break outer:) 0)",
		"(cond (== j 1) (continue outer:) 0)",
		"(cond (== j 0) (continue inner:) (== i 1) (break outer:) 0)",
		"(cond (== j 1) (break inner:) 0)",
		"(let [q j] (cond (== q 1) (break outer:) 0))",
	})
	inner := g.withLocal("s", func() string {
		return g.withLocal("i", func() string {
			return g.withLocal("j", func() string { return fmt.Sprintf("(set s (+ s %s))", g.e(d+2)) })
		})
	})
	return fmt.Sprintf("(let [s 0] (for outer: [(def i 0) (< i 2) (def i (+ i 1))] (for inner: [(def j 0) (< j 2) (def j (+ j 1))] %s %s)) s)", ctl, inner)
}

// ---- top-level forms

var failingCores = []string{
	"(undefinedFn 1)", "undefinedSym", "(+ 1 \"a\")", "(aget [1 2] 7)", "(assert false)", "(hget (hash a: 1) zz:)",
	"(first 3)", "(let)", "(for [])", "(cond 1 2)", "(/ 1 0)", "(def)", "((fn [a] a))", "(hset 3 a: 1)", "(fn)", "(str2sym 5)",
	"(let [a] 1)", "(continue nosuch:)", "(mdef a)", "(aget 5 0)", "(hf)", "(quote 1 2)", "(quote)",
	// comparisons of what cannot be compared, at depth
	"(== [1 [2 \"a\"]] [1 [2 3]])", "(< \"a\" 1)", "(== (hash a: 1) 1)", "(== [1 \"a\"] [1 2])",
	// a binding that the language refuses elsewhere ((def a "s") over an int), through the multiple-binding form
	"(let [ty9 1] (def ty9 \"s\"))", "(let [ty9 1] (mdef ty9 tz9 (list 1)))",
}

// texts with a syntax error in the middle and more forms behind it
var failingParseCores = []string{"(def leaked9 1) \"abc", "(def leaked9 1) \"abc\\", "(def leaked9 1) 'a", "(def leaked9 1) '\\", "(def leaked9 1) (+ 1", "(def leaked9 1) /* c", "(def leaked9 1) `raw", "(def leaked9 1) [1 2", "(def leaked9 1) {a: 1",
	"(+ 1 2)) (def leaked9 99)", "(def q9 1] (def leaked9 9)", "(list 1 2)) (defn leakf9 [] 1)", "(+ 1 2) } (def leaked9 1)", "(quote (a \\ b \\ c)) (def leaked9 2)", "[1 2)) (def leaked9 3)"}

// forms that fail on a file that does not parse (the file is on the scenario's simulated disk)
var failingFileCores = []string{"(include \"bad9.zy\")", "(source \"bad9.zy\")", "(source [\"bad9.zy\"])", "(include \"bad9.zy\" \"bad9.zy\")", "(req bad9)"}

// failing forms that define something before they fail (the definition legitimately stays)
var failingEffCores = []string{
	// a self-call in tail position with the wrong number of arguments
	"(begin (defn wa9 [a b] (cond (== a 0) b (wa9 (- a 1) b 99))) (wa9 2 1))", "(begin (defn wb9 [a b] (cond (== a 0) b (wb9 (- a 1)))) (wb9 2 1))",
	"(begin (func wc9 [n:int64] [r:int64] (cond (== n 0) 0 (wc9 m: (- n 1)))) (wc9 2))",
}

func (g *progGen) failingForm() string {
	core := g.r.Pick(failingCores)
	if len(g.fns) > 0 && g.r.Chance(0.2) {
		f := g.fns[g.r.Intn(len(g.fns))]
		core = fmt.Sprintf("(%s%s)", f.name, strings.Repeat(" 1", f.arity+1)) // wrong arity
	}
	if len(g.globals) > 0 && g.r.Chance(0.12) {
		// a destructuring (re)definition of globals whose source has the wrong shape: known before anything is bound
		gl := g.globals[g.r.Intn(len(g.globals))]
		g2 := g.globals[g.r.Intn(len(g.globals))]
		return g.r.Pick([]string{fmt.Sprintf("(mdef %s zz9 (list 77))", gl), fmt.Sprintf("(mdef %s %s zz8 (list 77 78))", g2, gl), fmt.Sprintf("(mdef %s %s [77])", gl, g2),
			fmt.Sprintf("(mdef zz9 %s 7)", gl), fmt.Sprintf("{%s, zz9 = 77}", gl), fmt.Sprintf("(begin (mdef %s zz9 (list 77)))", gl), fmt.Sprintf("(mdef %s %s (list))", gl, g2)})
	}
	if g.r.Chance(0.2) {
		// a redefinition of something that exists, failing while it is being compiled or built: the earlier
		// definition must survive untouched
		bad := g.r.Pick([]string{"(let)", "(for [1 2])", "(cond 1 2)", "(fn)", "(let [a] 1)"})
		var cands []string
		for _, f := range g.fns {
			cands = append(cands, fmt.Sprintf("(func %s [a:int64] [n:int64] %s)", f.name, bad), fmt.Sprintf("(defn %s [a] %s)", f.name, bad), fmt.Sprintf("(method [p: (* int64)] %s [a:int64] [n:int64] %s)", f.name, bad))
		}
		for _, gl := range g.globals {
			cands = append(cands, fmt.Sprintf("(def %s %s)", gl, bad), fmt.Sprintf("(set %s %s)", gl, bad), fmt.Sprintf("(var %s nosuchtype)", gl))
			// a destructuring definition whose source has the wrong shape: known before anything is bound
			cands = append(cands, fmt.Sprintf("(mdef %s zz9 (list 1))", gl), fmt.Sprintf("(mdef zz9 %s zz8 (list 1 2))", gl), fmt.Sprintf("(mdef %s zz9 7)", gl), fmt.Sprintf("{%s, zz9 = 1}", gl), fmt.Sprintf("((fn [] (mdef %s zz9 (list 3))))", gl))
		}
		for _, h := range g.hashes {
			cands = append(cands, fmt.Sprintf("(hset %s a: %s)", h, bad), fmt.Sprintf("(def %s (hash a: %s))", h, bad))
		}
		// declarations that fail half-way: whether or not the name was declared before, nothing of it may stay
		cands = append(cands, "(struct Dog0 [(field Name: string e:0) (field y: nosuchtype e:1)])", "(struct Dog1 [(field y: nosuchtype)])", "(struct Dog0 [(field x: 5)])", "(struct Dog1 [(field 5)])", "(struct Dog0 [(field Name: string e:0) (field)])", "(struct Dog0 [5])",
			"(interface Drv0 [(func bad [a:nosuchtype] [])])", "(var v0 nosuchtype)", "(func fn0 [a:nosuchtype] [n:int64] (return 1))",
			"(method [p: (* Dog0)] bark0 [a:nosuchtype] [n:int64])", "(defmap ranch0 1 2)")
		if g.decls {
			// ill-typed writes to declared records that earlier forms may have made (if not: still a failing form)
			cands = append(cands, "(hset pp0 Num: \"bad\")", "(hset pp1 Num: \"bad\")", "{pq0.Num = \"s\"}", "(set pq1.Num \"s\")", "(hset pp0 Zed: 1)", "(hset pq0 Num: [1])")
		}
		if g.havePkg {
			cands = append(cands, "(set pk0.secret 5)", "{pk0.secret = 6}", "(def pk0 (package \"pk0\" { secret := 2; (defn Get [] (let)) }))", "(pk0.hidden)")
		}
		if len(cands) > 0 {
			return g.r.Pick(cands)
		}
	}
	if len(g.macros) > 0 && g.r.Chance(0.25) {
		// a redefinition of an existing macro that fails to compile: the earlier definition must survive
		m := g.macros[g.r.Intn(len(g.macros))]
		return fmt.Sprintf("(defmac %s [x] %s)", m, g.r.Pick([]string{"(let [a] 1)", "(begin 1 (for []))", "(cond 1 2)", "(fn)"}))
	}
	// nest the failing core at some depth so that unwinding crosses several re-entry points
	return g.nest(core, g.r.Intn(4))
}

func (g *progGen) nest(core string, n int) string {
	s := core
	for i := 0; i < n; i++ {
		switch g.r.Intn(9) {
		case 0:
			s = fmt.Sprintf("(let [a 1] (+ a %s))", s)
		case 1:
			s = fmt.Sprintf("(for [(def i 0) (< i 2) (def i (+ i 1))] %s)", s)
		case 2:
			s = fmt.Sprintf("((fn [x] (+ x %s)) 2)", s)
		case 3:
			s = fmt.Sprintf("(cond true %s 0)", s)
		case 4:
			s = fmt.Sprintf("(newScope %s)", s)
		case 5:
			s = fmt.Sprintf("(eval (quote %s))", s)
		case 6:
			s = fmt.Sprintf("(apply (fn [x] %s) [1])", s)
		case 7:
			s = fmt.Sprintf("(and true %s)", s)
		case 8:
			s = fmt.Sprintf("[1 %s]", s)
		}
		if g.r.Chance(0.12) {
			// inside a template, not in last position
			s = fmt.Sprintf(g.r.Pick([]string{"(expectError \"\" %s)", "(expectError \"o\" %s)", "(begin (expectError \"e\" %s) 1)", "(len ^[1 ~%s 3])", "(len ^(a ~%s b))", "(len ^[~%s ~(+ 1 1)])", "(len ^(a ~@(list %s 1) b))", "(len (hash a: %s b: 2))", "(len [%s 2 3])"}), s)
		}
	}
	return s
}

func (g *progGen) fresh(pool []string, used []string) string {
	return pool[g.r.Intn(len(pool))]
}

var globalPool = []string{"g0", "g1", "g2", "g3", "g4", "g5"}

func contains(xs []string, s string) bool {
	for _, x := range xs {
		if x == s {
			return true
		}
	}
	return false
}

func (g *progGen) topForm() vmForm {
	g.eff = false
	g.locals = nil
	w := []int{5, 4, 3, 2, 2, 1, 2, 1, 2, 1, 1, 2, 2, 1}
	if g.havePkg {
		w[13] = 0
	}
	if g.noFail {
		w[6] = 0
	}
	if len(g.globals) == 0 {
		w[2] = 0
	}
	if !g.decls {
		w[10] = 0
	}
	var text string
	switch g.r.Weighted(w) {
	case 0: // global definition
		name := g.r.Pick(globalPool)
		text = fmt.Sprintf("(def %s %s)", name, g.e(0))
		if !contains(g.globals, name) {
			g.globals = append(g.globals, name)
		}
	case 1: // plain expression
		text = g.e(0)
	case 2: // set of a global
		name := g.globals[g.r.Intn(len(g.globals))]
		text = fmt.Sprintf("(set %s %s)", name, g.e(0))
	case 3: // function definition
		name := fmt.Sprintf("f%d", g.r.Intn(3))
		ar := g.r.Range(1, 2)
		params := localNames[:ar]
		f := fnInfo{name: name, arity: ar}
		savedEff := g.eff
		g.eff = false
		g.locals = append([]string{}, params...)
		lazy := g.r.Chance(0.25)
		var body string
		if lazy {
			f.lazy = true
			forced := g.r.Pick([]string{"(force #a)", "(+ (force #a) (force #a))", "0", "(cond (< 1 2) (force #a) 0)"})
			rest := "0"
			if ar == 2 {
				rest = "b"
			}
			body = fmt.Sprintf("(+ %s %s %s)", forced, rest, g.probe())
			params = append([]string{"#a"}, params[1:]...)
		} else if g.r.Chance(0.25) {
			// recursive: the self-call sits in a seeded context (argument, binding, element, operand, branch, bare =
			// tail position), and the conditional around it in another one
			self := fmt.Sprintf("(%s (- a 1))", name)
			base := g.probe()
			if ar == 2 {
				self = fmt.Sprintf("(%s (- a 1) (+ b %s))", name, g.probe())
				base = "b"
			}
			rec := fmt.Sprintf("(cond (<= a 0) %s %s)", base, g.selfCtx(self))
			body = g.selfCtx(rec)
			f.arity = ar
		} else {
			g.usedEff = g.r.Chance(0.2)
			body = g.body(1)
			g.usedEff = false
		}
		f.eff = g.eff
		g.eff = savedEff
		g.locals = nil
		text = fmt.Sprintf("(defn %s [%s] %s)", name, strings.Join(params, " "), body)
		// replace an earlier function of that name
		var keep []fnInfo
		for _, o := range g.fns {
			if o.name != name {
				keep = append(keep, o)
			}
		}
		// recursion arguments are kept tiny by callers: mark so calls use small literals
		g.fns = append(keep, f)
	case 4: // hash / array global
		if g.r.Chance(0.5) {
			name := fmt.Sprintf("h%d", g.r.Intn(2))
			text = fmt.Sprintf("(def %s (hash a: %s b: %s))", name, g.e(1), g.e(1))
			if !contains(g.hashes, name) {
				g.hashes = append(g.hashes, name)
			}
		} else {
			name := fmt.Sprintf("r%d", g.r.Intn(2))
			text = fmt.Sprintf("(def %s [%s %s])", name, g.e(1), g.e(1))
			if !contains(g.arrays, name) {
				g.arrays = append(g.arrays, name)
			}
		}
	case 5: // update of a global container
		if len(g.hashes) > 0 {
			text = fmt.Sprintf("(hset %s %s %s)", g.hashes[g.r.Intn(len(g.hashes))], g.r.Pick([]string{"a:", "c:"}), g.e(0))
		} else {
			text = g.e(0)
		}
	case 6: // natively failing form
		if g.r.Chance(0.08) {
			return vmForm{Text: g.r.Pick(failingEffCores), Fail: true, Eff: true}
		}
		if g.r.Chance(0.1) {
			// a text that stops parsing in the middle: nothing of it runs, nothing of it is left for the next text
			return vmForm{Text: g.r.Pick(failingParseCores), Fail: true}
		}
		if g.r.Chance(0.08) {
			// a file that does not parse, included or sourced
			if g.files == nil {
				g.files = map[string]string{}
			}
			g.files["bad9.zy"] = "(def bg9 1)\n(def bx9 (+ 1"
			return vmForm{Text: g.r.Pick(failingFileCores), Fail: true}
		}
		return vmForm{Text: g.failingForm(), Fail: true}
	case 7: // macro definition (closed template over its argument and literals)
		name := fmt.Sprintf("m%d", g.r.Intn(2))
		if contains(g.macros, name) {
			// a macro is defined at most once per program: calls in argument position are expanded when the
			// call runs, so a redefinition later in the same text would legitimately depend on grouping
			return vmForm{Text: g.e(0), Eff: g.eff}
		}
		tmpl := g.r.Pick([]string{"^(+ ~x 1)", "^(let [t ~x] (* t 2))", "^(cond (< ~x 3) ~x 0)", "^(begin ~x ~x)", "^(+ ~@(list x 1))"})
		text = fmt.Sprintf("(defmac %s [x] %s)", name, tmpl)
		if !contains(g.macros, name) {
			g.macros = append(g.macros, name)
		}
		return vmForm{Text: text, Eff: true}
	case 8: // a form with a global effect in the middle (R3 must still hold; R4 is not applied)
		g.usedEff = true
		if len(g.globals) == 0 {
			g.globals = append(g.globals, "g0")
			text = fmt.Sprintf("(begin (def g0 %s) %s)", g.e(1), g.e(1))
		} else {
			name := g.globals[g.r.Intn(len(g.globals))]
			text = fmt.Sprintf("(begin (set %s %s) %s (set %s %s))", name, g.e(1), g.e(1), name, g.e(1))
		}
		g.usedEff = false
		return vmForm{Text: text, Eff: true}
	case 9: // macexpand of a user macro
		if len(g.macros) > 0 {
			text = fmt.Sprintf("(macexpand (%s %s))", g.macros[g.r.Intn(len(g.macros))], g.lit())
		} else {
			text = g.e(0)
		}
	case 10:
		text = g.declForm()
	case 11:
		// a lazily bound argument that outlives the call: captured by a closure kept in a global and forced
		// by later forms (its memo is state that a failed force must not corrupt)
		if !g.haveThunkMaker {
			g.haveThunkMaker = true
			text = "(defn lzmk [#a] (fn [] (force #a)))"
			break
		}
		if len(g.thunks) == 0 || g.r.Chance(0.4) {
			name := fmt.Sprintf("t%d", g.r.Intn(3))
			text = fmt.Sprintf("(def %s (lzmk %s))", name, g.e(1))
			if !contains(g.thunks, name) {
				g.thunks = append(g.thunks, name)
			}
			break
		}
		th := g.thunks[g.r.Intn(len(g.thunks))]
		text = g.r.Pick([]string{"(%s)", "(+ 1 (%s))", "(let [q (%s)] (+ q q))", "(for [(def i 0) (< i 2) (def i (+ i 1))] (%s))"})
		text = fmt.Sprintf(text, th)
	case 13:
		// a package with a private and a public member, observed through its own accessor
		g.havePkg = true
		return vmForm{Text: "(def pk0 (package \"pk0\" { secret := 1; Open := (hash inner: 2); (defn Get [] secret); (defn hidden [] 3) }))"}
	case 12:
		// source of one or two files from the simulated disk; a failure inside a sourced file is a failure at depth
		if g.files == nil {
			g.files = map[string]string{}
		}
		nf := g.r.Range(1, 2)
		var names []string
		for k := 0; k < nf; k++ {
			name := fmt.Sprintf("s%d.zy", g.r.Intn(3))
			var sb strings.Builder
			for j, m := 0, g.r.Range(1, 3); j < m; j++ {
				switch g.r.Intn(3) {
				case 0:
					sb.WriteString(g.e(1))
				case 1:
					sb.WriteString(fmt.Sprintf("(def sv%d %s)", g.r.Intn(2), g.e(1)))
				case 2:
					sb.WriteString(g.probe())
				}
				sb.WriteString("\n")
			}
			g.files[name] = sb.String()
			names = append(names, fmt.Sprintf("%q", name))
		}
		text = fmt.Sprintf("(source %s)", strings.Join(names, " "))
		switch g.r.Intn(6) {
		case 0:
			text = fmt.Sprintf("(source [%s])", strings.Join(names, " "))
		case 1:
			text = fmt.Sprintf("(source (list %s))", strings.Join(names, " "))
		case 2:
			if !g.noInclude {
				text = fmt.Sprintf("(include %s)", strings.Join(names, " "))
			}
		case 3:
			if !g.noInclude {
				text = fmt.Sprintf("(include [%s])", strings.Join(names, " "))
			}
		}
		if g.r.Chance(0.3) {
			text = fmt.Sprintf("(+ 1 (let [q 2] %s))", text)
		}
		// a sourced def is a global effect in the middle of the form
		return vmForm{Text: text, Eff: true}
	}
	return vmForm{Text: text, Eff: g.eff}
}

var declForms = []string{
	"(struct Dog%d [(field Name: string e:0) (field Num: int64 e:1)])",
	"(var v%d int64)",
	"(var s%d string)",
	"(func fn%d [a:int64 b:string] [n:int64] (return (+ a 1)))",
	"(func fd%d [a:int64] [n:int64])",
	"(interface Drv%d [(func driveIt [a:int64] [n:int64])])",
	"(def pk%d (package \"pk\" { W := 3; (defn Get [x] (+ W x)) }))",
	"(def acc%d []) (range k v (hash a: 1 b: 2) (set acc%d (append acc%d v)))",
	"{ q%d = 4 + 5 * 2 }",
	"(def hh%d (hash a: 1)) {for k, v := range hh%d { zz%d = v }}",
	"(method [p: (* Dog0)] bark%d [a:int64] [n:int64])",
	"(defmap ranch%d)",
	// declare-and-use: the declared thing is exercised in statement position
	"(func fu%d [a:int64 b:int64] [n:int64] (return (+ a b))) (fu%d b:40 a:2)",
	"(func fu%d [a:int64 b:int64] [n:int64] (return (+ a b))) (fu%d 1 2) (+ 1 (fu%d a:3 b:4))",
	"(func fs%d [a:int64] [n:int64 e:error] (return a nil)) (fs%d a:5)",
	"(struct Pup%d [(field Name: string e:0) (field Num: int64 e:1)]) (def pp%d (Pup%d Name: \"r\")) (hset pp%d Num: 3) pp%d.Name",
	"(struct Pup%d [(field Num: int64 e:0)]) (def pq%d (Pup%d Num: 1)) {pq%d.Num = 7} (:Num pq%d)",
	"(def pc%d (package \"pc\" { (defn Cnt [n acc] (cond (<= n 0) acc (Cnt (- n 1) (+ acc 1)))) })) (pc%d.Cnt 3 0)",
	"(var vv%d int64) (set vv%d 5) vv%d",
	"(defmap farm%d) (def fr%d (farm%d a: 1 b: 2)) (:a fr%d)",
	"(aa%d bb%d = 1 2)",
	"{ ia%d, ib%d = 3, 4 }", "(def iq%d 5) { ic%d, id%d = iq%d, 1 } ic%d", "(for [(def i 0) (< i 2) (def i (+ i 1))] { ie%d, if%d = i, 2 })", "(+ 1 (first { ig%d, ih%d = 7, 8 }))",
	"(mdef ma%d mb%d (list 1 2)) ma%d",
	"{ ia%d = 1; ib%d = ia%d + 2 }",
	"(def cl%d (let [k 2] (fn [x] (+ x k)))) (cl%d 1) (map cl%d [1 2])",
	"(defn tr%d [n] (let [m (- n 1)] (cond (> n 0) (tr%d m) n))) (tr%d 4)",
	"(for [(def i 0) (< i 3) (def i (+ i 1))] (let [x i] (cond (> x 1) (break) 0)))",
	"(def ar%d [1 2 3]) { ar%d[1] = 9 } (aget ar%d 1)",
	"(def st%d \"abc\") (len (concat st%d \"d\"))",
	"(macexpand (++ zc%d))",
	"(def aq%d [1 2 3]) { aq%d[1] = 9; 5 }",
	"(def aq%d [1 2 3]) (begin { aq%d[0] = 7 } (aget aq%d 0))",
	"(def hq%d (hash a: 1)) { hq%d.a = 2; hq%d.a }",
	"(for [(def i 0) (< i 3) (def i (+ i 1))] (let [z i] (and (== z 1) (continue) 1)))",
	"(for [(def i 0) (< i 3) (def i (+ i 1))] (let [z i] (or (< z 1) (break) 1)))",
	"(defn lt%d [n] (let [m (lt2%d n)] m)) (defn lt2%d [n] (+ n 1)) (lt%d 3)",
	// base-type conversions in statement position; lazy formals in tail self-calls with literal / computed arguments
	"(int64 3.7) (int 2.5) (float64 3) (uint8 7.9) (int32 1.5) (int64 4) (float32 1) (byte 65.2)",
	"(def cv%d (int64 9.9)) (+ cv%d (int 1.2))",
	"(defn lq%d [#x n] (cond (<= n 0) 0 (lq%d 5 (- n 1)))) (lq%d 1 3)",
	"(defn lr%d [n #x] (cond (<= n 0) (force #x) (lr%d (- n 1) 7))) (lr%d 3 (+ 1 1))",
	"(defn ls%d [#x #y n] (cond (<= n 0) 1 (ls%d \"s\" [1 2] (- n 1)))) (ls%d 1 2 2)",
	// tail self-calls whose arguments are array literals / templates; body-less multi-return func; selector assignment in loops and arguments
	"(defn ta%d [n acc] (cond (<= n 0) acc (ta%d (- n 1) [n 1]))) (ta%d 3 0)",
	"(defn tq%d [n acc] (cond (<= n 0) acc (tq%d (- n 1) ^(a ~n)))) (tq%d 3 0)",
	"(defn th%d [n acc] (cond (<= n 0) acc (th%d (- n 1) (hash a: n)))) (th%d 2 0)",
	"(func fz%d [a:int64] [n:int64 m:int64]) (fz%d 1)",
	"(func fy%d [a:int64] [n:int64 m:int64] (return a a)) (fy%d a:2)",
	"(def sa%d [1 2 3]) (for [(def i 0) (< i 2) (def i (+ i 1))] { sa%d[i] = 9 }) (aget sa%d 0)",
	"(def sb%d [1 2 3]) (+ 1 { sb%d[0] = 5 })",
	"(def sc%d (hash a: 1)) (for [(def i 0) (< i 2) (def i (+ i 1))] { sc%d.a = i }) (str { sc%d.a = 7 })",
	// return from nested scopes inside a typed func, called positionally and by name
	"(func fr%d [a:int64] [n:int64] (let [b a] (for [(def i 0) (< i 3) (def i (+ i 1))] (let [c i] (cond (> (+ b c) 1) (return (+ b c)) 0)))) (return 0)) (fr%d 1) (fr%d a:0) (+ 1 (fr%d 5))",
	"(func fq%d [a:int64 b:int64] [n:int64 m:int64] (newScope (cond (> a b) (return a b) 0)) (return b a)) (fq%d 2 1) (fq%d a:1 b:2)",
	"(def ia%d 2) (def ib%d 0) { if ia%d > 1 { ib%d = 2 } else if ia%d > 0 { ib%d = 3 } else { ib%d = 4 } } ib%d",
	"(def rb%d (hash a: 1 b: 2 c: 3)) (def rs%d 0) (range k v rb%d (cond (== v 2) (break) 0) (set rs%d (+ rs%d v))) rs%d",
	"(def rb%d (hash a: 1 b: 2 c: 3)) (def rs%d 0) {for k, v := range rb%d { if v == 2 { continue }; rs%d = rs%d + v }} rs%d",
	// a function whose last form is a loop whose body ends in a self-call that really runs (tree walk)
	"(def vis%d 0) (defn walk%d [n] (for [(def i 0) (< i 2) (def i (+ i 1))] (set vis%d (+ vis%d 1)) (cond (> n 0) (walk%d (- n 1)) 0))) (walk%d 3) vis%d",
	"(defn wk%d [n] (let [k n] (for [(def i 0) (< i 2) (def i (+ i 1))] (cond (> k 0) (wk%d (- k 1)) 0)))) (wk%d 2)",
	"(for outer: [(def i 0) (< i 3) (def i (+ i 1))] (let [q i] (for inner: [(def j 0) (< j 3) (def j (+ j 1))] (cond (== j 1) (continue outer:) 0))))",
	"(for outer: [(def i 0) (< i 3) (def i (+ i 1))] (newScope (for inner: [(def j 0) (< j 3) (def j (+ j 1))] (cond (== j 1) (break outer:) 0))))",
	"(def rh%d (hash a: 1 b: 2)) (for outer: [(def i 0) (< i 2) (def i (+ i 1))] (range k v rh%d (cond (== v 2) (continue outer:) 0)))",
	"(def zc%d 1) (++ zc%d) (+= zc%d 2) zc%d",
	// several values returned, the last of them a self-call; assignments whose target carries a sigil
	"(func sm%d [n:int64 acc:int64] [a:int64 b:int64] (cond (== n 0) (return acc acc) (return 1 (sm%d (- n 1) (+ acc n))))) (sm%d 4 0)",
	"(defn sn%d [n acc] (cond (== n 0) acc (return 1 2 (sn%d (- n 1) (+ acc n))))) (sn%d 3 0)",
	"(defn lz%d [#a] (set #a 9) 1) (lz%d 3) (lz%d (+ 1 2))", "(def ?q%d 1) (set ?q%d 5) ?q%d", "(defn ly%d [#a b] (set #a b) (set b 2) b) (ly%d 1 2)", "(def #h%d 1) (set #h%d 2)",
	// self-calls in tail position of typed functions (by name and by position), of functions with lazy and optional formals
	"(func cn%d [n:int64] [r:int64] (cond (== n 0) 0 (cn%d n: (- n 1)))) (cn%d 3) (cn%d n:2)",
	"(func co%d [n:int64 acc:int64] [r:int64] (cond (== n 0) acc (co%d acc: (+ acc 1) n: (- n 1)))) (co%d 3 0)",
	"(defn vo%d [a & r] (cond (== a 0) (len r) (vo%d (- a 1) 7 8))) (vo%d 2) (vo%d 1 1 1 1)",
	// syntax-quote templates as whole top-level forms
	"(def ql%d (quote (1 2 3))) ^~@ql%d", "(def qm%d 5) ^~qm%d", "(def qn%d (list 1 2)) ^(~@qn%d)", "(def qo%d [1 2]) ^[~@qo%d 3]", "(def qp%d 2) ^[~qp%d ~qp%d]", "(def qq%d (list 7 8)) (+ 1 (first ^(~@qq%d)))",
	// anonymous typed functions, inline
	"((func [a:int64] [r:int64] (return (+ a 1))) 2)", "(def af%d (func [a:int64] [r:int64] (return a))) (af%d 1) (+ 1 (af%d a:2))", "(map (func [a:int64] [r:int64] (return (+ a 1))) [1 2])",
	"(let [q 1] ((func [a:int64] [r:int64] (return (+ a q))) 2))",
	// forms with nothing in them where something usually is
	"(package pe%d)", "(def pz%d (package \"pz\"))", "(let [] 1)", "(letseq [] 2)", "(defn le%d [] (let [] 3)) (le%d)", "(for [(def i 0) (< i 2) (def i (+ i 1))] (let [] i))", "(for [(def i 0) (< i 2) (def i (+ i 1))] (package pf%d))",
	// packages declared inside loops and functions, loop control and self-calls inside package bodies
	"(defn pf%d [] (for [(def i 0) (< i 2) (def i (+ i 1))] (package \"pp\" { A := 1 }) (cond (== i 0) (continue) 0)) 7) (pf%d)",
	"(defn pg%d [] (for [(def i 0) (< i 2) (def i (+ i 1))] (package \"pq\" { A := 1; (cond (== A 1) (break) 0) })) 7) (pg%d)",
	"(defn pt%d [n] (package \"pr\" { (cond (<= n 0) 0 (pt%d (- n 1))) })) (pt%d 2)",
	"(for [(def i 0) (< i 2) (def i (+ i 1))] (def pw%d (package \"pw\" { W := i })))",
}

func (g *progGen) declForm() string {
	n := g.r.Intn(2)
	f := g.r.Pick(declForms)
	c := strings.Count(f, "%d")
	args := make([]interface{}, c)
	for i := range args {
		args[i] = n
	}
	return fmt.Sprintf(f, args...)
}

// genProgram: n top-level forms
func genProgram(r *kernel.RNG, maxForms int, noFail, decls bool) []vmForm {
	forms, _ := genProgramFiles(r, maxForms, noFail, decls)
	return forms
}

// genProgramNoClock: as genProgram, without the forms whose printed output depends on the wall clock (timeit)
func genProgramNoClock(r *kernel.RNG, maxForms int, noFail, decls bool) []vmForm {
	proggenNoClock = true
	defer func() { proggenNoClock = false }()
	forms, _ := genProgramFiles(r, maxForms, noFail, decls)
	return forms
}

var proggenNoClock bool

func genProgramFiles(r *kernel.RNG, maxForms int, noFail, decls bool) ([]vmForm, map[string]string) {
	g := newProgGen(r)
	g.noFail = noFail
	g.decls = decls
	n := r.Range(2, maxForms)
	var forms []vmForm
	for i := 0; i < n; i++ {
		forms = append(forms, g.topForm())
	}
	// files written later in the program may be re-generated under the same name: the scenario holds the final content,
	// so only keep (source ...) forms meaningful by making every version available from the start
	return forms, g.files
}
