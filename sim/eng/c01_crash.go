//go:build verif_oswall

package eng

import (
	"bufio"
	"encoding/json"
	"errors"
	"fmt"
	"io"
	"os"
	"path/filepath"
	"strings"
	"unicode/utf8"

	"verifsim/kernel"
	"verifsim/zy"

	"github.com/glycerine/zygomys/v9/zygo"
	"github.com/glycerine/zygomys/v9/zygo/verifos"
)

// C01: no input can crash the host. The fault-facing part: script text
// arrives over a transport that truncates, corrupts, drops, duplicates and
// reorders; storage returns read errors; host callbacks fail. Every
// script-facing entry point is exercised under recover and a step budget,
// with the operating system behind the oswall seam (read-only access to the
// scratch copy, os.Exit as a recoverable sentinel).

type c01Scenario struct {
	Kind    string   `json:"kind"`  // text | calls | cli
	Entry   string   `json:"entry"` // parse load-run eval evalexprs macexpand infix repl reader-error replmain-c replmain-file replmain-stdin
	Text    string   `json:"text,omitempty"`
	Texts   []string `json:"texts,omitempty"`
	Faults  []string `json:"faults,omitempty"` // how Text was damaged (informational; the text IS the damaged text)
	ErrAt   int      `json:"err_at,omitempty"`
	Sandbox bool     `json:"sandbox,omitempty"`
	Budget  int64    `json:"budget"`
}

// ---- a reader that fails at rune k (storage / transport read error)

type failingScanner struct {
	rs   []rune
	pos  int
	k    int
	last int
}

var errInjectedRead = errors.New("injected read error (EIO)")

func (s *failingScanner) ReadRune() (rune, int, error) {
	if s.pos >= s.k {
		return 0, 0, errInjectedRead
	}
	if s.pos >= len(s.rs) {
		return 0, 0, io.EOF
	}
	r := s.rs[s.pos]
	s.pos++
	return r, utf8.RuneLen(r), nil
}
func (s *failingScanner) UnreadRune() error {
	if s.pos > 0 {
		s.pos--
	}
	return nil
}

type failingReader struct {
	data []byte
	pos  int
	k    int
}

func (r *failingReader) Read(p []byte) (int, error) {
	if r.pos >= r.k {
		return 0, errInjectedRead
	}
	if r.pos >= len(r.data) {
		return 0, io.EOF
	}
	n := copy(p, r.data[r.pos:min(len(r.data), r.k)])
	r.pos += n
	return n, nil
}

// ---- damage

func damage(r *kernel.RNG, text string) (string, []string) {
	b := []byte(text)
	var faults []string
	n := r.Range(1, 3)
	for i := 0; i < n && len(b) > 0; i++ {
		switch r.Weighted([]int{4, 4, 3, 2, 2, 2, 1, 2}) {
		case 0: // truncate at an arbitrary byte (EOF at an arbitrary instant)
			b = b[:r.Intn(len(b)+1)]
			faults = append(faults, "truncate")
		case 1: // flip / replace a byte, biased to delimiters and quotes
			p := r.Intn(len(b))
			if r.Chance(0.6) {
				b[p] = "()[]{}\"`'\\;:,~^%#-+/*. \n"[r.Intn(24)]
			} else {
				b[p] ^= byte(1 << uint(r.Intn(8)))
			}
			faults = append(faults, "flip")
		case 2: // drop a chunk between token boundaries: whole sub-forms go missing -> (and), (let), (for []) ...
			toks := tokenBoundaries(b)
			if len(toks) > 2 {
				i := r.Intn(len(toks) - 1)
				j := i + 1 + r.Intn(min(6, len(toks)-1-i))
				b = append(append([]byte{}, b[:toks[i]]...), b[toks[j]:]...)
				faults = append(faults, "drop-tokens")
			}
		case 3: // drop a chunk at arbitrary bytes
			p := r.Intn(len(b))
			q := min(len(b), p+r.Range(1, 40))
			b = append(append([]byte{}, b[:p]...), b[q:]...)
			faults = append(faults, "drop-bytes")
		case 4: // duplicate a chunk
			p := r.Intn(len(b))
			q := min(len(b), p+r.Range(1, 60))
			b = append(append(append([]byte{}, b[:q]...), b[p:q]...), b[q:]...)
			faults = append(faults, "duplicate")
		case 5: // swap two chunks
			if len(b) > 8 {
				p := r.Intn(len(b) / 2)
				l := r.Range(1, min(30, len(b)/4+1))
				q := len(b)/2 + r.Intn(len(b)/2-l+1)
				if p+l <= q && q+l <= len(b) {
					x := append([]byte{}, b[p:p+l]...)
					copy(b[p:p+l], b[q:q+l])
					copy(b[q:q+l], x)
					faults = append(faults, "swap")
				}
			}
		case 6: // invalid UTF-8
			p := r.Intn(len(b))
			b = append(append(append([]byte{}, b[:p]...), []byte{0xff, 0xfe, 0xc0}[r.Intn(3)]), b[p:]...)
			faults = append(faults, "invalid-utf8")
		case 7: // empty out a form: delete everything between a bracket pair
			if p := indexAnyFrom(b, "([{", r.Intn(len(b))); p >= 0 {
				if q := matchingClose(b, p); q > p {
					keep := 0
					if r.Chance(0.5) {
						// keep the head symbol: (and) (let) (for) (def) (fn) ...
						for keep = p + 1; keep < q && !strings.ContainsRune(" \t\n()[]{}", rune(b[keep])); keep++ {
						}
						keep -= p + 1
					}
					b = append(append([]byte{}, b[:p+1+keep]...), b[q:]...)
					faults = append(faults, "empty-form")
				}
			}
		}
	}
	return string(b), faults
}

func tokenBoundaries(b []byte) []int {
	var out []int
	inTok := false
	for i, c := range b {
		isDelim := strings.ContainsRune(" \t\r\n()[]{}", rune(c))
		if isDelim || !inTok {
			out = append(out, i)
		}
		inTok = !isDelim
	}
	return out
}

func indexAnyFrom(b []byte, chars string, from int) int {
	for i := from; i < len(b); i++ {
		if strings.IndexByte(chars, b[i]) >= 0 {
			return i
		}
	}
	for i := 0; i < from && i < len(b); i++ {
		if strings.IndexByte(chars, b[i]) >= 0 {
			return i
		}
	}
	return -1
}

func matchingClose(b []byte, p int) int {
	depth := 0
	for i := p; i < len(b); i++ {
		switch b[i] {
		case '(', '[', '{':
			depth++
		case ')', ']', '}':
			depth--
			if depth == 0 {
				return i
			}
		}
	}
	return -1
}

// ---- execution

type c01Outcome struct {
	panicSite, panicMsg string
	budget              bool
	exited              bool
}

// guardAll runs f under recover; os.Exit sentinels are not crashes.
func guardAll(f func()) (out c01Outcome) {
	defer func() {
		if r := recover(); r != nil {
			if _, isExit := r.(verifos.ExitSentinel); isExit {
				out.exited = true
				return
			}
			o := zy.Guard(func() (zygo.Sexp, error) { panic(r) })
			out.panicSite, out.panicMsg = o.Site, o.PanicMsg
		}
		if kernel.BudgetHit() {
			out.budget = true
		}
	}()
	f()
	return
}

func c01Env(sandbox bool) *zygo.Zlisp {
	if sandbox {
		return zy.New("sandbox-std")
	}
	return zy.New("std")
}

func execC01(body json.RawMessage) *kernel.Result {
	var sc c01Scenario
	res := &kernel.Result{}
	if err := json.Unmarshal(body, &sc); err != nil {
		res.Violate("", "harness", "bad-scenario", err.Error())
		return res
	}
	if sc.Budget == 0 {
		sc.Budget = 200000
	}
	root := filepath.Dir(corpusDir())
	verifos.Policy = readOnlyPolicyC01(root)
	osChdir(root)
	fail := func(clause, site, f string, a ...interface{}) {
		res.Violate("C01", "C01."+clause, site, fmt.Sprintf(f, a...))
	}
	report := func(o c01Outcome, what string) {
		if o.budget {
			res.Unbounded++
			return
		}
		if o.panicSite != "" || o.panicMsg != "" {
			fail("P-panic", o.panicSite, "%s panicked out of the library: %s. input=%q", what, o.panicMsg, trunc(what2(sc), 700))
		}
	}
	verifos.Reset()
	switch sc.Kind {
	case "text":
		for _, f := range sc.Faults {
			res.Fault(f)
		}
		res.Sig("text|" + sc.Entry + "|" + strings.Join(sc.Faults, "+"))
		env := c01Env(sc.Sandbox)
		res.Execs++
		o := guardAll(func() {
			kernel.SetBudget(sc.Budget)
			defer kernel.SetBudget(-1)
			switch sc.Entry {
			case "parse":
				p := env.VerifParser()
				p.ResetAddNewInput(strings.NewReader(sc.Text))
				p.ParseTokens()
			case "load-run":
				if err := env.LoadString(sc.Text); err == nil {
					env.Run()
				}
			case "eval":
				if v, err := env.EvalString(sc.Text); err == nil && v != nil {
					_ = v.SexpString(nil) // print the value, as the REPL does
				}
			case "evalexprs":
				p := env.VerifParser()
				p.ResetAddNewInput(strings.NewReader(sc.Text))
				xs, err := p.ParseTokens()
				if err == nil && len(xs) > 0 {
					env.EvalExpressions(xs)
				}
			case "macexpand":
				env.EvalString("(macexpand " + sc.Text + ")")
			case "infix":
				env.EvalString("(infixExpand {" + sc.Text + "})")
			case "repl":
				// the REPL's own reader followed by the REPL's own evaluation path
				rd := bufio.NewReader(strings.NewReader(sc.Text))
				for i := 0; i < 50; i++ {
					_, xs, err := env.VerifReplRead(rd)
					if err != nil {
						if err == io.EOF {
							break
						}
						env.Clear()
						continue
					}
					if len(xs) > 0 {
						infix := zygo.MakeList([]zygo.Sexp{env.MakeSymbol("infix"), &zygo.SexpArray{Val: xs, Env: env}})
						if _, err := env.EvalExpressions([]zygo.Sexp{infix}); err != nil {
							env.GetStackTrace(err)
							env.Clear()
						}
					}
				}
			case "reader-error":
				res.Fault("read-error")
				if sc.ErrAt%2 == 0 {
					if err := env.LoadStream(&failingScanner{rs: []rune(sc.Text), k: sc.ErrAt}); err == nil {
						env.Run()
					}
				} else {
					if err := env.LoadFile(&failingReader{data: []byte(sc.Text), k: sc.ErrAt}); err == nil {
						env.Run()
					}
				}
			}
		})
		report(o, sc.Entry)
		// whatever happened, the interpreter must still be usable and closable without crashing the host
		if o.panicSite == "" && !o.budget {
			o2 := guardAll(func() {
				kernel.SetBudget(20000)
				defer kernel.SetBudget(-1)
				env.Clear()
				env.EvalString("(+ 1 2) ")
			})
			report(o2, sc.Entry+"+next-eval")
		}
		o3 := guardAll(func() { env.Close() })
		report(o3, sc.Entry+"+close")
	case "calls":
		env := c01Env(sc.Sandbox)
		for _, t := range sc.Texts {
			res.Execs++
			o := guardAll(func() {
				kernel.SetBudget(sc.Budget)
				defer kernel.SetBudget(-1)
				v, err := env.EvalString(t + " ")
				// what every client does next: print the value (as the REPL does) or the error with its trace
				if err == nil && v != nil {
					_ = v.SexpString(nil)
				} else if err != nil {
					_ = env.GetStackTrace(err)
				}
			})
			res.Sig("call|" + headOf(t))
			if o.budget {
				res.Unbounded++
				closeQuietly(env)
				env = c01Env(sc.Sandbox)
				continue
			}
			if o.panicSite != "" || o.panicMsg != "" {
				fail("P-panic", o.panicSite, "EvalString(%q) panicked out of the library: %s", t, o.panicMsg)
				closeQuietly(env)
				env = c01Env(sc.Sandbox)
				continue
			}
			env.Clear()
		}
		closeQuietly(env)
	case "cli":
		res.Execs++
		res.Sig("cli|" + sc.Entry + "|" + fmt.Sprint(sc.Sandbox))
		o := guardAll(func() {
			kernel.SetBudget(sc.Budget)
			defer kernel.SetBudget(-1)
			cfg := zygo.NewZlispConfig("zygo")
			cfg.DefineFlags()
			args := []string{"-no-liner", "-quiet"}
			if sc.Sandbox {
				args = append(args, "-sandbox")
			}
			exe, _ := os.Executable()
			tmp := filepath.Join(filepath.Dir(exe), fmt.Sprintf("cli-%d", os.Getpid()))
			os.MkdirAll(tmp, 0755)
			defer os.RemoveAll(tmp)
			stdin := ""
			switch sc.Entry {
			case "replmain-c":
				args = append(args, "-c", sc.Text)
			case "replmain-file":
				f := filepath.Join(tmp, "script.zy")
				os.WriteFile(f, []byte(sc.Text), 0644)
				args = append(args, f)
			case "replmain-stdin":
				stdin = sc.Text
			}
			sf := filepath.Join(tmp, "stdin")
			os.WriteFile(sf, []byte(stdin), 0644)
			fh, err := os.Open(sf)
			if err != nil {
				return
			}
			defer fh.Close()
			saved := os.Stdin
			os.Stdin = fh
			defer func() { os.Stdin = saved }()
			cfg.Flags.Parse(args)
			cfg.ValidateConfig()
			zygo.ReplMain(cfg)
		})
		report(o, sc.Entry)
	}
	res.Steps = kernel.Steps()
	return res
}

func what2(sc c01Scenario) string {
	if sc.Text != "" {
		return sc.Text
	}
	return strings.Join(sc.Texts, " ¦ ")
}

func headOf(t string) string {
	t = strings.TrimLeft(t, "( ")
	if i := strings.IndexAny(t, " )"); i > 0 {
		return t[:i]
	}
	return t
}

// scripts may read files under the scratch copy (and the CLI's own temp dir); nothing else proceeds
func readOnlyPolicyC01(root string) func(op string, args []string) bool {
	exe, _ := os.Executable()
	scratch := filepath.Dir(exe)
	return func(op string, args []string) bool {
		switch op {
		case "os.Open", "os.Stat", "io/ioutil.ReadAll", "os.Getwd":
			if len(args) == 0 || op == "io/ioutil.ReadAll" {
				return true
			}
			p := args[0]
			if !filepath.IsAbs(p) {
				return !strings.Contains(p, "..")
			}
			p = filepath.Clean(p)
			return strings.HasPrefix(p, root) || strings.HasPrefix(p, scratch)
		}
		return false
	}
}

// ---- generation

var c01Entries = []string{"parse", "load-run", "eval", "evalexprs", "macexpand", "infix", "repl", "reader-error"}

func c01BaseText(r *kernel.RNG) string {
	switch r.Weighted([]int{5, 3, 2}) {
	case 0:
		t := corpusChunk(r, r.Range(1, 25))
		if strings.Contains(t, "makeChan") || strings.Contains(t, "(dump") {
			return "(+ 1 2)\n"
		}
		return t
	case 1:
		return genText(r, 4, r.Range(1, 4))
	}
	forms := genProgram(r, 4, false, true)
	var ts []string
	for _, f := range forms {
		ts = append(ts, f.Text)
	}
	return strings.Join(ts, "\n") + "\n"
}

func genC01Text(r *kernel.RNG, tier string, i int) interface{} {
	sc := &c01Scenario{Kind: "text", Entry: c01Entries[i%len(c01Entries)], Sandbox: r.Chance(0.2)}
	sc.Budget = int64(r.PickInt([]int{5000, 50000, 200000}))
	base := c01BaseText(r)
	if len(base) > 4096 {
		base = base[:4096]
	}
	if r.Chance(0.1) {
		sc.Text = base // undamaged baseline
	} else {
		sc.Text, sc.Faults = damage(r, base)
	}
	if sc.Entry == "reader-error" {
		sc.ErrAt = r.Intn(len(sc.Text) + 1)
	}
	return sc
}

var c01ArgPool = []string{
	"0", "1", "-1", "2", "7", "3000", "9223372036854775807", "-9223372036854775808", "1.5", "-0.0", "NaN", "1e308", "3ULL",
	`""`, `"a"`, `"abc"`, "`raw`", `"%s %d"`, `"["`, "'c'", "nil", "true", "false",
	"[]", "[1 2 3]", `["a" "b"]`, "[[1] [2]]", "(list)", "(list 1 2)", "(quote (a \\ b))", "(quote (a b \\ c))", "(cons 1 2)", "(cons 1 (cons 2 3))", "(cons (list 1) 2)", "(hash)", "(hash a: 1)", "(hash a: (hash b: 2))",
	"%sym", "%a.b", "(quote ())", "(fn [x] x)", "(fn [] 1)", "+", "hget", "(raw)", "(now)", "(& 1)", "(array 3)", "{}", "a:", ":=", "=",
	// values that contain themselves
	"(let [cy (hash)] (hset cy self: cy) cy)", "(let [ca [1 2]] (aset ca 0 ca) ca)", "(let [cb [1] ch (hash)] (hset ch arr: cb) (aset cb 0 ch) cb)",
	"(list 1 (list 2 (list 3)))", "[nil nil]", "(hash 1 2)", `(hash "k" [1 2])`, "int64", "string", "(quote int64)",
}

// every special form applied to nothing, and bodies that yield no value, as arguments: a form that leaves no value
// where its caller expects one
func init() {
	for _, f := range c01SpecialForms {
		c01ArgPool = append(c01ArgPool, "("+f+")")
	}
	c01ArgPool = append(c01ArgPool, "(newScope (begin) 5)", "(cond true (begin) 3)", "(let [a 1] (begin))", "(tfv)", "((fn []))", "(begin (begin))",
		"(for [(def i 0) (< i 1) (def i (+ i 1))])", "(cond false 1)", "(let [] (newScope))")
}

var c01Cyclic = []string{"(let [ck [0]] (aset ck 0 ck) ck)", "(let [cy (hash)] (hset cy self: cy) cy)", "(let [ca [1 2]] (aset ca 0 ca) ca)", "(let [cb [1] ch (hash)] (hset ch arr: cb) (aset cb 0 ch) cb)",
	"(let [cc [1 [2]]] (aset (aget cc 1) 0 cc) cc)", "(let [cd (hash a: [1])] (aset (hget cd a:) 0 cd) cd)"}

var c01SpecialForms = []string{"and", "or", "cond", "quote", "def", "mdef", "fn", "defn", "begin", "let", "letseq", "assert", "defmac", "macexpand", "syntaxQuote", "for", "set", "break", "continue", "newScope", "package", "return", "_ls",
	"struct", "func", "method", "interface", "var", "expectError", "infix", "infixExpand", ":", "comma", "range", "defmap", "++", "+=", "--", "-=", "import", "field", "if", "else", "->", "=", ":="}

// not called with arbitrary arguments: the blocking channel primitives, and `dump` (go-goon dumps the whole Go object
// graph reachable from its argument - for a function or hash that is the interpreter and, through it, everything the
// process has registered so far: minutes and gigabytes in a long-lived worker, yet bounded; a debugging aid, not a hang)
var c01SkipNames = map[string]bool{"<!": true, "send": true, "makeChan": true, "hf": true, "dump": true}

var c01Universe []string

func c01Names() []string {
	if c01Universe != nil {
		return c01Universe
	}
	env := zy.New("std")
	set := map[string]bool{}
	for _, n := range env.VerifGlobalNames() {
		set[n] = true
	}
	for _, n := range env.VerifMacroNames() {
		set[n] = true
	}
	for _, n := range zygo.ReservedWords {
		set[n] = true
	}
	for _, n := range c01SpecialForms {
		set[n] = true
	}
	closeQuietly(env)
	for n := range set {
		if n == "" || c01SkipNames[n] || strings.ContainsAny(n, " ()[]{}\"`;") {
			continue
		}
		c01Universe = append(c01Universe, n)
	}
	sortStrings(c01Universe)
	return c01Universe
}

func genC01Calls(r *kernel.RNG, tier string, i int) interface{} {
	names := c01Names()
	sc := &c01Scenario{Kind: "calls", Budget: 50000, Sandbox: r.Chance(0.15)}
	// script-declared callables with declared parameter types, a struct and a package: their own checking code
	// (names, arities, types) runs on every call
	sc.Texts = append(sc.Texts,
		"(func tf1 [a:int64] [n:int64] (return a)) (func tf2 [a:string b:int64] [n:int64 e:error] (return b nil)) (func tf3 [#a:int64 b:float64] [n:int64] (return 1))",
		"(struct Ts [(field A: int64 e:0) (field B: string e:1)]) (def ts (Ts A: 1)) (defmap tm) (def pq (package \"pq\" { V := 1; (defn G [x] x) }))",
		"(defn lzf [#a b] b) (defn vf [a & rest] rest) (defmac mq [x & r] ^(list ~x ~@r)) (func tfv [] [] (return))")
	// identifiers are not ASCII only: declared names, fields and parameters with multi-byte runes
	sc.Texts = append(sc.Texts,
		"(struct Größe [(field größe: int64 e:0) (field 長さ: string e:1) (field x: float64 e:2)]) (def gö (Größe größe: 1 長さ: \"é\")) (func tfü [größe:int64 長さ:string] [länge:int64] (return größe))",
		"(def tmi (tm a: 1)) (def plainh (hash a: 1))",
		// a macro that generates a symbol while it is being expanded (in the interpreter the expansion runs in)
		"(defmac mgs [] (let [s (gensym)] ^(quote ~s))) (defmac mgp [p] (let [s (gensym p)] ^(quote ~s)))")
	declared := []string{"tf1", "tf2", "tf3", "Ts", "ts", "tm", "pq.G", "pq.V", "lzf", "vf", "mq", "ts.A", "pq", "Größe", "gö", "tfü", "gö.長さ", "tmi", "_ls", "mgs", "mgp", "gensym"}
	fieldTargets := []string{"ts.A", "ts.B", "gö.größe", "gö.長さ", "gö.x", "tmi.a", "plainh.a", "pq.V", "ts.Nosuch"}
	k := 24
	lo := (i * 4) % len(names)
	// every sixth scenario: values that contain themselves only, handed over as values and as literals of a call
	// built as data (every walker of a value - compiler, printer, comparer, encoder - meets them)
	cyclicOnly := i%6 == 5
	for j := 0; j < k; j++ {
		n := names[(lo+j/6)%len(names)]
		if r.Chance(0.3) {
			n = r.Pick(c01SpecialForms)
		}
		if r.Chance(0.2) {
			n = r.Pick(declared)
		}
		na := r.Weighted([]int{2, 4, 4, 3, 1})
		var args []string
		for a := 0; a < na; a++ {
			args = append(args, r.Pick(c01ArgPool))
		}
		if cyclicOnly {
			if na == 0 {
				args = append(args, "")
			}
			for a := range args {
				args[a] = r.Pick(c01Cyclic)
			}
		}
		t := "(" + n + " " + strings.Join(args, " ") + ")"
		if strings.HasPrefix(n, "tf") && len(args) > 0 && r.Chance(0.4) {
			// by-name call with right and wrong labels
			var parts []string
			for ai, a := range args {
				parts = append(parts, r.Pick([]string{"a:", "b:", "c:", "a:"})+a)
				_ = ai
			}
			t = "(" + n + " " + strings.Join(parts, " ") + ")"
		}
		route := r.Intn(8)
		if cyclicOnly && r.Chance(0.5) {
			route = 4
		}
		switch route {
		case 0:
			t = "{ " + n + " " + strings.Join(args, " ") + " }"
		case 1:
			t = "(let [z " + t + "] z)"
		case 2:
			t = "(str " + t + ")"
		case 3:
			t = "[" + t + " " + t + "]"
		case 4:
			// the call built as data and evaluated: argument values (cyclic ones too) reach the compiler as literals
			t = "(eval (list (quote " + n + ") " + strings.Join(args, " ") + "))"
		case 5:
			t = "(+ 1 " + t + ")"
		}
		if len(args) > 0 && r.Chance(0.12) {
			// a field of a record as the target of every kind of assignment, with every kind of value
			ft := r.Pick(fieldTargets)
			dot := strings.Index(ft, ".")
			switch r.Intn(5) {
			case 0:
				t = "(set " + ft + " " + args[0] + ")"
			case 1:
				t = "{" + ft + " = " + args[0] + "}"
			case 2:
				t = "(hset " + ft[:dot] + " " + ft[dot+1:] + ": " + args[0] + ")"
			case 3:
				t = "{" + ft[:dot] + "[%" + ft[dot+1:] + "] = " + args[0] + "}"
			case 4:
				t = "(def cl9 (let [w " + ft[:dot] + "] (fn [] w))) (set " + ft + " " + args[0] + ") (cl9)"
			}
		}
		sc.Texts = append(sc.Texts, t)
		if r.Chance(0.08) {
			// the same call assembled by a macro from a name given as a string (names no script text can spell included)
			sc.Texts = append(sc.Texts, fmt.Sprintf("(defmac mz9 [] (list (str2sym %q) %s)) (mz9)", n, strings.Join(args, " ")))
		}
	}
	// parameter lists from a small alphabet, for every form that takes one
	formalAlphabet := []string{"a", "b", "&", "#a", "a:", "a:int64", "1", `"s"`, "[]", "nil", "&", "a", "%a", "(a)", "b:string", "..."}
	for j, nf := 0, r.Range(1, 3); j < nf; j++ {
		var fs []string
		for q, m := 0, r.Intn(4); q < m; q++ {
			fs = append(fs, r.Pick(formalAlphabet))
		}
		formals := "[" + strings.Join(fs, " ") + "]"
		sc.Texts = append(sc.Texts, fmt.Sprintf(r.Pick([]string{"(fn %s 1)", "(defn ff9 %s 1)", "(defmac mm9 %s 1)", "(func fz9 %s [] 1)", "(func fy9 [a:int64] %s 1)", "((fn %s 1) 1 2)", "(method [p: (* Ts)] mt9 %s [] 1)", "(let %s 1)", "(letseq %s 1)", "(for %s 1)", "(mdef %s)"}), formals))
	}
	// every name with pairs of extreme integers (shift counts, exponents, divisors, sizes, indexes)
	if i%5 == 2 {
		edges := []string{"0", "1", "-1", "2", "63", "64", "-64", "9223372036854775807", "-9223372036854775808"}
		for q := 0; q < 3; q++ {
			n := names[(i/5*3+q)%len(names)]
			if c01SkipNames[n] || n == "makeArray" || n == "array" {
				continue // (sizes of 2^63 cells are a matter of memory, not of this property)
			}
			for _, a := range edges {
				for _, b := range edges {
					sc.Texts = append(sc.Texts, "("+n+" "+a+" "+b+")")
				}
			}
		}
	}
	// a variable of every type the interpreter knows by name, then used as a value
	if i%3 == 1 {
		tn := names[(i*7)%len(names)]
		sc.Texts = append(sc.Texts, fmt.Sprintf("(var vq9 %s)", tn), "(str vq9)", "(def vr9 vq9)", "[vq9 vq9]", "(== vq9 vq9)")
	}
	if cyclicOnly {
		// values that contain themselves as keys
		sc.Texts = append(sc.Texts, fmt.Sprintf("(def hk9 (hash %s 1 %s 2))", c01Cyclic[2], c01Cyclic[4]), "(hpair hk9 1)", "(str hk9)", "(str (keys hk9))", "(hget hk9 "+c01Cyclic[2]+" 0)",
			"(hget (hash a: 1) "+c01Cyclic[0]+" 0)", "(hset (hash) "+c01Cyclic[0]+" 1)", "(hdel (hash a: 1) "+c01Cyclic[0]+")",
			"(def hk8 (hash (let [ca [1 2]] (aset ca 0 ca) ca) 1 (let [cb [1 2]] (aset cb 0 cb) cb) 2))", "(hpair hk8 1)", "(str hk8)")
	}
	return sc
}

var c01Containers = []string{"(append [1 2 3] 4)", "(append (append [1] 2) 3)", "[1 2 3]", "[]", `"abc"`, `""`, "(hash a: 1 b: 2)", "(hash)", "(list 1 2 3)", "[[1 2] [3 4]]", "(raw)", "nil", "5", "(hash 0 10 1 11)", `["a" "b"]`, "[1.5 2.5]"}
var c01Indexes = []string{"0", "1", "2", "3", "-1", "-2", "4", "100", "9223372036854775807", "-9223372036854775808", "1.5", `"x"`, "nil", "%a", "a:", "[0]", "[0 1]", "true", "'c'", "(+ 1 1)", "1ULL"}

// genC01Index: reads, writes and slices of containers at boundary and ill-typed indexes, in prefix and infix syntax
// (index assignment is compiled to its own VM instruction, outside the recover() that protects builtin functions)
func genC01Index(r *kernel.RNG, tier string, i int) interface{} {
	sc := &c01Scenario{Kind: "calls", Budget: 50000}
	for j := 0; j < 24; j++ {
		c := r.Pick(c01Containers)
		ix, iy, v := r.Pick(c01Indexes), r.Pick(c01Indexes), r.Pick(c01ArgPool)
		sc.Texts = append(sc.Texts, "(def cx "+c+")")
		var t string
		switch r.Intn(14) {
		case 0:
			t = fmt.Sprintf("{cx[%s] = %s}", ix, v)
		case 1:
			t = fmt.Sprintf("{cx[%s]}", ix)
		case 2:
			t = fmt.Sprintf("{cx[%s:%s]}", ix, iy)
		case 3:
			t = fmt.Sprintf("{cx[%s:]}", ix)
		case 4:
			t = fmt.Sprintf("{cx[:%s]}", ix)
		case 5:
			t = fmt.Sprintf("(aset cx %s %s)", ix, v)
		case 6:
			t = fmt.Sprintf("(aget cx %s)", ix)
		case 7:
			t = fmt.Sprintf("(set (arrayidx cx [%s]) %s)", ix, v)
		case 8:
			t = fmt.Sprintf("{cx[%s][%s] = %s}", ix, iy, v)
		case 9:
			t = fmt.Sprintf("{cx[%s] = %s; cx}", ix, v)
		case 10:
			t = fmt.Sprintf("(slice cx %s %s)", ix, iy)
		case 11:
			t = fmt.Sprintf("{cx.%s = %s}", strings.Trim(ix, "%:\"[]'"), v)
		case 12:
			t = fmt.Sprintf("(hset cx %s %s)", ix, v)
		case 13:
			t = fmt.Sprintf("{cx[%s] += 1}", ix)
		}
		// the same access as a call argument, inside a loop body, and as a non-final statement
		switch r.Intn(6) {
		case 0:
			t = "(+ 1 " + t + ")"
		case 1:
			t = "(for [(def i 0) (< i 2) (def i (+ i 1))] " + t + ")"
		case 2:
			t = "(begin " + t + " 5)"
		case 3:
			t = "(str [" + t + " " + t + "])"
		}
		sc.Texts = append(sc.Texts, t, "(str cx)")
	}
	return sc
}

var infixTokens = []string{"a", "b", "x1", "1", "2", "-3", "4.5", "1e3", `"s"`, "'c'", "+", "-", "*", "/", "**", "=", ":=", "==", "!=", "<", "<=", ">", ">=", "&&", "||", "!", "+=", "-=", "++", "--",
	"(", ")", "[", "]", "{", "}", ",", ";", ":", ".", "if", "else", "for", "range", "break", "continue", "return", "(f 1)", "a[0]", "a[1:2]", "a.b", "h.k", "lbl:", "nil", "true", "not", "and", "or", "mod", "->", "%a", "^(b)", "~c", "\n",
	// statement heads and tails, so that soups contain unfinished statements and not only unfinished expressions
	"for a =", "for a = {}", "for a, b := range", "for a := range h {", "for {", "for ; ; {", "if a ==", "if a {", "else {", "= }", "{}", "return a,", "a, b =", "a = ", "for a = range", "a :=", "for a ="}

// genC01InfixSoup: token soups inside an infix block - the Pratt parser's look-ahead and binding-power loops are hand-written
func genC01InfixSoup(r *kernel.RNG, tier string, i int) interface{} {
	sc := &c01Scenario{Kind: "calls", Budget: 50000}
	sc.Texts = append(sc.Texts, "(def a [1 2 3]) (def b 2) (def x1 3) (def h (hash k: 1)) (defn f [q] q)")
	for j := 0; j < 24; j++ {
		n := r.Range(1, 9)
		var toks []string
		for k := 0; k < n; k++ {
			toks = append(toks, r.Pick(infixTokens))
		}
		sep := " "
		if r.Chance(0.3) {
			sep = ""
		}
		body := strings.Join(toks, sep)
		switch r.Intn(4) {
		case 0:
			sc.Texts = append(sc.Texts, "{ "+body+" }")
		case 1:
			sc.Texts = append(sc.Texts, "(infixExpand { "+body+" })")
		case 2:
			sc.Texts = append(sc.Texts, "{"+body+"}")
		case 3:
			sc.Texts = append(sc.Texts, "(def q { "+body+" })")
		}
	}
	return sc
}

var litSoupAtoms = []string{"0x", "0xG", "0o9", "0b2", "1e", "1e+", "1e-", "1.2.3", ".5.5", "1__0", "_1", "1_", "9999999999999999999999", "-9999999999999999999999", "1ULL", "1ULLL", "0xULL", "18446744073709551616ULL",
	"'ab'", "''", "'\\q'", "'\\'", "\"\\q\"", "\"unterminated", "`unterminated", "a..b", ".a.", "..", "a.", ".1", "a:b:", "a::", ":a", "::", "#", "##", "?", "#a#", "a#", "~@", "~", "^", "%", "%%", "@", "\\", "a\\b",
	"1/2", "1//2", "/*", "*/", "//", "+-", "-+", "--1", "++1", "1++", "=>", "<-", "<!", "!<", "&&&", "|", "||", "&", "$", "$$", "a$b", "é", "日本", "\t", "\x00", "1e999", "-1e999", "NaN", "Inf", "-Inf", "+Inf", "inf", "1i", "1.5i",
	"true:", "nil:", "1:", ":=:", "a:=", "=:", "a-b", "a-1", "-a", "1-1", "1-", "(-)", "(- )", "[,]", "[,,1]", "{,}", "(,)", "{;}", "{;;a}", "(;)", "%[", "%(", "^[~@]", "(~@)", "~@x", "^~x", "^^x", "%~x"}

// genC01LiteralSoup: malformed and borderline literals and operator fragments, alone and inside brackets
func genC01LiteralSoup(r *kernel.RNG, tier string, i int) interface{} {
	sc := &c01Scenario{Kind: "calls", Budget: 20000}
	for j := 0; j < 30; j++ {
		a, b := r.Pick(litSoupAtoms), r.Pick(litSoupAtoms)
		switch r.Intn(8) {
		case 0:
			sc.Texts = append(sc.Texts, a)
		case 1:
			sc.Texts = append(sc.Texts, "("+a+")")
		case 2:
			sc.Texts = append(sc.Texts, "["+a+" "+b+"]")
		case 3:
			sc.Texts = append(sc.Texts, "{"+a+"}")
		case 4:
			sc.Texts = append(sc.Texts, "(str (quote "+a+"))")
		case 5:
			sc.Texts = append(sc.Texts, a+b)
		case 6:
			sc.Texts = append(sc.Texts, "(def z "+a+") z")
		case 7:
			sc.Texts = append(sc.Texts, "(hash "+a+" "+b+")")
		}
	}
	return sc
}

func genC01Cli(r *kernel.RNG, tier string, i int) interface{} {
	sc := &c01Scenario{Kind: "cli", Entry: []string{"replmain-c", "replmain-file", "replmain-stdin"}[i%3], Sandbox: r.Chance(0.4), Budget: 200000}
	base := c01BaseText(r)
	if len(base) > 2048 {
		base = base[:2048]
	}
	if r.Chance(0.2) {
		sc.Text = base
	} else {
		sc.Text, sc.Faults = damage(r, base)
	}
	if sc.Entry == "replmain-c" {
		sc.Text = strings.ReplaceAll(sc.Text, "\x00", " ")
	}
	return sc
}

func shrinkC01(body json.RawMessage) []json.RawMessage {
	var sc c01Scenario
	if json.Unmarshal(body, &sc) != nil {
		return nil
	}
	var out []json.RawMessage
	emit := func(s c01Scenario) {
		b, _ := json.Marshal(s)
		out = append(out, b)
	}
	if sc.Text != "" {
		for _, t := range shrinkText(sc.Text, 60) {
			s := sc
			s.Text = t
			if s.ErrAt > len(t) {
				s.ErrAt = len(t)
			}
			emit(s)
		}
	}
	n := len(sc.Texts)
	for _, chunk := range []int{n / 2, n / 4, 1} {
		if chunk < 1 {
			continue
		}
		for i := 0; i+chunk <= n; i += chunk {
			s := sc
			s.Texts = append(append([]string{}, sc.Texts[:i]...), sc.Texts[i+chunk:]...)
			emit(s)
		}
	}
	if len(sc.Texts) == 1 {
		for _, t := range shrinkText(sc.Texts[0], 40) {
			s := sc
			s.Texts = []string{t}
			emit(s)
		}
	}
	if sc.Sandbox {
		s := sc
		s.Sandbox = false
		emit(s)
	}
	if sc.Kind == "text" && sc.Entry != "eval" && sc.Entry != "reader-error" {
		s := sc
		s.Entry = "eval"
		emit(s)
	}
	return out
}

func init() {
	kernel.RegisterWarmup(func() { c01Names() })
	cnt := func(q, t int) func(string) int {
		return func(tier string) int {
			if tier == "thorough" {
				return t
			}
			return q
		}
	}
	vmPart := &kernel.Part{Name: "host-faults", Count: cnt(300, 8000), Generate: func(r *kernel.RNG, tier string, i int) interface{} {
		sc := genVMFaults("C01")(r, tier, i).(*vmScenario)
		sc.PanicsOnly = true
		return sc
	}, Execute: execVM, Shrink: shrinkVM}
	kernel.Register(&kernel.Plan{
		Property: "C01",
		Level:    "exploration",
		Rule: "fault-facing part of C01. (a) texts (corpus chunks, generated token-alphabet texts, generated programs) delivered over a faulty transport - truncated at an arbitrary byte, bytes flipped/replaced with bias to delimiters and quotes, chunks dropped at token or byte boundaries, duplicated, swapped, forms emptied ((and) (let) (for) ...), invalid UTF-8 inserted, reader failing at rune k - " +
			"through every script-facing entry point: ParseTokens, LoadString+Run, EvalString, EvalExpressions, macexpand, infixExpand, the REPL reader plus the REPL's evaluation path, LoadStream/LoadFile over a failing reader, and in-process ReplMain with -c / script file / stdin (with and without -sandbox); then Clear+next evaluation and Close. " +
			"(b) the name universe read from the interpreter x 0-4 arguments from a pool of ill-typed/boundary values (wrong arities, out-of-range indices, malformed and empty special forms, values that contain themselves, improper lists), every returned value printed as the REPL does; reads, writes and slices of containers at boundary and ill-typed indexes in prefix and infix syntax. (c) host-call faults (error, Go panic) at every call point of generated programs. " +
			"Oracle: no Go panic reaches the harness's recover, the worker process survives, the call returns within the step budget or is classified unbounded. distinct_nontrivial counts distinct (entry point, fault kinds) / (called name) / (fault kind, depth, route) signatures.",
		Components: map[string][]string{
			"real": {"lexer", "parser", "generator", "VM", "builtins", "REPL reader and loop", "ReplMain/runScript"},
			"stub": {"script transport (damage applied by the simulator)", "failing RuneScanner / io.Reader", "operating system (oswall seam: read-only scratch copy, os.Exit as sentinel, stdin from a file)", "host functions failing on demand"},
		},
		Assume: []string{
			"a step-budget abort classifies the run as unbounded; the property promises a return only for programs needing bounded steps",
			"memory exhaustion (e.g. a damaged script asking makeArray for 10^9 cells) is counted as resource_exhausted, not as a violation: the property says nothing about memory. Go stack exhaustion IS judged: script recursion is bounded by the step budget far below the (lowered, 512 MiB) stack limit, so a stack overflow is recursion inside the library",
			"texts <= 4 KiB; blocking channel primitives (makeChan/send/<!) are excluded here",
			"a panic raised by a host-registered macro travels back to the host outside any recover of the library and is not counted",
		},
		Parts: []*kernel.Part{
			{Name: "damaged-text", Count: cnt(6000, 200000), Generate: genC01Text, Execute: execC01, Shrink: shrinkC01},
			{Name: "ill-typed-calls", Count: cnt(1200, 30000), Generate: genC01Calls, Execute: execC01, Shrink: shrinkC01},
			{Name: "infix-soup", Count: cnt(500, 15000), Generate: genC01InfixSoup, Execute: execC01, Shrink: shrinkC01},
			{Name: "literal-soup", Count: cnt(400, 12000), Generate: genC01LiteralSoup, Execute: execC01, Shrink: shrinkC01},
			{Name: "indexing", Count: cnt(500, 15000), Generate: genC01Index, Execute: execC01, Shrink: shrinkC01},
			{Name: "cli", Count: cnt(300, 12000), Generate: genC01Cli, Execute: execC01, Shrink: shrinkC01, Isolated: true},
			vmPart,
		},
	})
}
