// Package eng holds the simulation engines; each file registers the plan of
// the properties it decides.
package eng

import "os"

func osChdir(dir string) error { return os.Chdir(dir) }
