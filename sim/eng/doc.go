// Package eng holds the simulation engines; each file registers the plan of
// the properties it decides.
package eng

import "os"

func osChdir(dir string) error { return os.Chdir(dir) }

func trunc(s string, n int) string {
	if len(s) > n {
		return s[:n] + "…"
	}
	return s
}
