package eng

import (
	"encoding/json"
	"fmt"
	"hash/fnv"
	"regexp"
	"strconv"
	"strings"

	"verifsim/kernel"
	"verifsim/zy"

	"github.com/glycerine/zygomys/v9/zygo"
)

// Engine `model`, C14: operation histories on one hash, issued at script
// level, compared step by step with an insertion-ordered association list.

type hkey struct {
	Kind string `json:"kind"` // sym str int chr arr1 arrN symnum
	Text string `json:"text"` // source text (for symnum: the symbol whose number is used)
}

type hop struct {
	Pretty bool `json:"pretty,omitempty"` // the operation runs while the interpreter's pretty-printing flag is on
	Op  string `json:"op"` // hset hdel hget hgetd obs alias rebuild rangemut
	K   int    `json:"k"`
	V   int    `json:"v,omitempty"`
	Via string `json:"via,omitempty"` // h g arr
	// write route for hset: "" (hset), index ({h[k] = v}), dot ({h.k = v}, symbol keys only)
	Route string `json:"route,omitempty"`
}

type hashScenario struct {
	Env  string `json:"env"`
	Ctor string `json:"ctor"` // hash curly msgmap empty
	Init []int  `json:"init"` // indices into Keys given to the constructor
	Keys []hkey `json:"keys"`
	Ops  []hop  `json:"ops"`
}

// two strings whose 32-bit FNV-1 hashes are equal (deterministic birthday search)
var fnvPair [2]string

func fnv1(s string) uint32 {
	h := fnv.New32()
	h.Write([]byte(s))
	return h.Sum32()
}

func init() {
	// found once by the deterministic birthday search below; re-verified at every start
	fnvPair = [2]string{"k37843", "k682900"}
	if fnv1(fnvPair[0]) == fnv1(fnvPair[1]) {
		return
	}
	seen := map[uint32]string{}
	for i := 0; ; i++ {
		s := "k" + strconv.Itoa(i)
		v := fnv1(s)
		if o, ok := seen[v]; ok {
			fnvPair = [2]string{o, s}
			return
		}
		seen[v] = s
	}
}

var hashSymNames = []string{"a", "b", "c", "zz", "Key", "x1", "d", "e", "f", "g9", "h_h", "ii"}

func genHashKeys(r *kernel.RNG, n int) []hkey {
	var ks []hkey
	used := map[string]bool{}
	usedText := map[string]bool{}
	add := func(k hkey) bool {
		id := specCanon(k)
		if used[id] && !(k.Kind == "arrN" && strings.Contains(k.Text, "2]") && !usedText[k.Text]) {
			return false
		}
		usedText[k.Text] = true
		// never an int and a char of equal value, never x and [x] (same canon)
		if k.Kind == "chr" {
			if used["int:"+strconv.Itoa(int([]rune(strings.Trim(k.Text, "'"))[0]))] {
				return false
			}
		}
		if strings.HasPrefix(id, "int:") {
			v, _ := strconv.Atoi(id[4:])
			if v > 0 && v < 0x110000 && used["chr:"+strconv.Itoa(v)] {
				return false
			}
		}
		used[id] = true
		ks = append(ks, k)
		return true
	}
	for tries := 0; len(ks) < n && tries < 100; tries++ {
		switch r.Weighted([]int{4, 3, 3, 2, 2, 2, 2, 2, 1}) {
		case 8:
			// a symbol whose name is a dotted path: either a key like any other or refused as a key, never half of each
			add(hkey{"dotsym", r.Pick([]string{"p.q", "s.t.u", ".r", "a.b"})})
		case 0:
			add(hkey{"sym", r.Pick(hashSymNames)})
		case 1:
			add(hkey{"str", r.Pick([]string{"s", "a", "", "long key", "k9", "q\"r", "b\\s", "br]ck{t"})})
		case 2:
			add(hkey{"int", strconv.Itoa(r.PickInt([]int{0, 1, 2, 7, -1, 42, 99}))})
		case 3:
			add(hkey{"chr", r.Pick([]string{"'c'", "'a'", "'Z'"})})
		case 4:
			if r.Chance(0.3) {
				// wrapped more than once: [[3]] is the key 3 like [3]
				add(hkey{"arr2", strconv.Itoa(r.PickInt([]int{3, 5, 8}))})
			} else {
				add(hkey{"arr1", strconv.Itoa(r.PickInt([]int{3, 5, 8}))})
			}
		case 5:
			add(hkey{"arrN", r.Pick([]string{"[1 2]", "[0 0]", "[1 2 3]", "[\"p\" 1]", "[]", "[[1] 2]", "[[] []]", "['a' 2]", "[97 2]", "['a' 2]", "[97 2]"})})
		case 6:
			// an integer equal to a symbol's number: same bucket as the symbol
			sym := r.Pick(hashSymNames)
			add(hkey{"sym", sym})
			add(hkey{"symnum", sym})
		case 7:
			add(hkey{"str", fnvPair[0]})
			add(hkey{"str", fnvPair[1]})
			if r.Chance(0.6) {
				// and the integer equal to their common hash code: a bucket of three
				add(hkey{"int", strconv.FormatUint(uint64(fnv1(fnvPair[0])), 10)})
			}
		}
	}
	return ks
}

func specCanon(k hkey) string {
	switch k.Kind {
	case "sym":
		return "sym:" + k.Text
	case "str":
		return "str:" + k.Text
	case "int":
		return "int:" + k.Text
	case "chr":
		return "chr:" + strconv.Itoa(int([]rune(strings.Trim(k.Text, "'"))[0]))
	case "arr1", "arr2":
		return "int:" + k.Text
	case "arrN":
		return "arr:" + normArr(k.Text)
	case "symnum":
		return "symnum:" + k.Text
	case "dotsym":
		return "sym:" + k.Text
	}
	return "?"
}

func genHashScenario(r *kernel.RNG, tier string, i int) interface{} {
	sc := &hashScenario{Env: "std"}
	if r.Chance(0.15) {
		sc.Env = "sandbox-std"
	}
	nk := r.Range(2, 8)
	if r.Chance(0.15) {
		nk = r.Range(9, 18) // wide hashes: every bucket mechanism with many neighbours
	}
	big := false
	sc.Keys = genHashKeys(r, nk)
	sc.Ctor = r.Pick([]string{"hash", "hash", "curly", "empty", "msgmap"})
	if sc.Ctor != "empty" {
		for _, j := range r.Perm(len(sc.Keys)) {
			if sc.Keys[j].Kind == "dotsym" {
				continue
			}
			if r.Chance(0.4) {
				sc.Init = append(sc.Init, j)
			}
		}
	}
	if r.Chance(0.006) {
		// big hashes: sizes on both sides of the powers of two where an implementation may switch representation or
		// batch its bookkeeping; the ballast keys are keys like any other (the operations below land on them)
		if sc.Ctor == "empty" {
			sc.Ctor = "hash"
		}
		nb := r.PickInt([]int{40, 70, 130, 250, 260, 300, 260})
		for b := 0; b < nb; b++ {
			sc.Keys = append(sc.Keys, hkey{"int", strconv.Itoa(2000000 + b)})
			sc.Init = append(sc.Init, len(sc.Keys)-1)
		}
		big = true
	}
	if len(sc.Init) > 0 && r.Chance(0.25) {
		// the same key given twice to the constructor: it keeps its first place and takes the later value
		sc.Init = append(sc.Init, sc.Init[r.Intn(len(sc.Init))])
	}
	n := r.Range(1, 40)
	if r.Chance(0.5) {
		n = r.Range(1, 10)
	}
	if big {
		n = r.Range(1, 5)
	}
	// swarm: per-scenario op weights
	w := []int{r.Range(1, 6), r.Range(0, 6), r.Range(0, 3), r.Range(0, 3), r.Range(0, 2), 1, r.Range(0, 2), r.Range(0, 2)}
	hasAlias := false
	for j := 0; j < n; j++ {
		op := hop{K: r.Intn(len(sc.Keys)), V: 1000 + j, Pretty: r.Chance(0.08)}
		switch r.Weighted(w) {
		case 0:
			op.Op = "hset"
			if r.Chance(0.3) {
				op.Route = r.Pick([]string{"index", "dot", "keyvar"})
			}
		case 1:
			op.Op = "hdel"
		case 2:
			op.Op = "hget"
		case 3:
			op.Op = "hgetd"
		case 4:
			op.Op = "obs"
		case 5:
			if !hasAlias {
				op.Op = "alias"
				hasAlias = true
			} else {
				op.Op = "hset"
			}
		case 6:
			op.Op = "keysmut"
		case 7:
			// a key whose value is nil is a key like any other
			op.Op = "hsetnil"
		}
		if hasAlias && op.Op != "alias" {
			op.Via = r.Pick([]string{"h", "g", "arr"})
		}
		sc.Ops = append(sc.Ops, op)
	}
	return sc
}

// --- exhaustive small histories: 3 keys × {hset,hdel,hget,hgetd}, length ≤ L

var exhKeys = []hkey{{"sym", "a"}, {"symnum", "a"}, {"str", "s"}}

func exhCount(L int) int {
	n, p := 0, 1
	for l := 1; l <= L; l++ {
		p *= 12
		n += p
	}
	return n
}

func genHashExhaustive(L int) func(*kernel.RNG, string, int) interface{} {
	return func(_ *kernel.RNG, tier string, i int) interface{} {
		l, p := 1, 12
		for i >= p {
			i -= p
			l++
			p *= 12
		}
		sc := &hashScenario{Env: "std", Ctor: "empty", Keys: exhKeys}
		ops := []string{"hset", "hdel", "hget", "hgetd"}
		for j := 0; j < l; j++ {
			d := i % 12
			i /= 12
			sc.Ops = append(sc.Ops, hop{Op: ops[d%4], K: d / 4, V: 1000 + j})
		}
		return sc
	}
}

// --- model

type hmodel struct {
	keys []string // canon ids in first-insertion order
	vals map[string]int
}

func (m *hmodel) set(k string, v int) {
	if _, ok := m.vals[k]; !ok {
		m.keys = append(m.keys, k)
	}
	m.vals[k] = v
}
func (m *hmodel) del(k string) {
	if _, ok := m.vals[k]; !ok {
		return
	}
	delete(m.vals, k)
	for i, x := range m.keys {
		if x == k {
			m.keys = append(m.keys[:i:i], m.keys[i+1:]...)
			break
		}
	}
}
func (m *hmodel) valueList() []int {
	var vs []int
	for _, k := range m.keys {
		vs = append(vs, m.vals[k])
	}
	return vs
}

// canonical identity of a key value returned by the implementation
var reCharLit = regexp.MustCompile(`'(.)'`)

// normArr: the identity of an array key follows ==, under which a character is the integer of its code
func normArr(text string) string {
	return reCharLit.ReplaceAllStringFunc(text, func(m string) string {
		return strconv.Itoa(int([]rune(m)[1]))
	})
}

func sexpCanon(x zygo.Sexp, symnums map[int]string) string {
	switch k := x.(type) {
	case *zygo.SexpSymbol:
		return "sym:" + k.Name()
	case *zygo.SexpStr:
		return "str:" + k.S
	case *zygo.SexpInt:
		if s, ok := symnums[int(k.Val)]; ok {
			return "symnum:" + s
		}
		return "int:" + strconv.FormatInt(k.Val, 10)
	case *zygo.SexpChar:
		return "chr:" + strconv.Itoa(int(k.Val))
	case *zygo.SexpArray:
		if len(k.Val) == 1 {
			return sexpCanon(k.Val[0], symnums)
		}
		return "arr:" + normArr(zy.Show(k))
	}
	return "other:" + zy.Show(x)
}

var reBigInt = regexp.MustCompile(`\b[0-9]{4,}\b`)

func bigInts(s string) []int {
	var out []int
	for _, m := range reBigInt.FindAllString(s, -1) {
		v, _ := strconv.Atoi(m)
		if v >= 1000 && v < 100000 {
			out = append(out, v)
		}
	}
	return out
}

// balancedPrint: the printed form of a hash opens and closes its brackets (format-agnostic otherwise; none of the
// generated keys or values contains a bracket or quote character)
func balancedPrint(s string) bool {
	s = strings.TrimSpace(s)
	if s == "" {
		return false
	}
	depth := 0
	inStr, esc := false, false
	for _, c := range s {
		// (brackets inside quoted keys do not count; a key with a quote or backslash in it is printed escaped)
		if inStr {
			switch {
			case esc:
				esc = false
			case c == '\\':
				esc = true
			case c == '"':
				inStr = false
			}
			continue
		}
		switch c {
		case '"':
			inStr = true
		case '{', '(', '[':
			depth++
		case '}', ')', ']':
			depth--
			if depth < 0 {
				return false
			}
		}
	}
	return depth == 0 && !inStr && strings.ContainsAny(s[:1], "{(")
}

// jsonMembers: the member names and integer values of a JSON object in document order, without the encoder's own
// "Atype" and "zKeyOrder" members; order is the content of "zKeyOrder" (nil if absent)
func jsonMembers(txt string) (names []string, vals []int, order []string, err error) {
	dec := json.NewDecoder(strings.NewReader(txt))
	tok, err := dec.Token()
	if err != nil {
		return nil, nil, nil, err
	}
	if d, isD := tok.(json.Delim); !isD || d != '{' {
		return nil, nil, nil, fmt.Errorf("not an object")
	}
	for dec.More() {
		tok, err = dec.Token()
		if err != nil {
			return nil, nil, nil, err
		}
		name, isStr := tok.(string)
		if !isStr {
			return nil, nil, nil, fmt.Errorf("member name %v is not a string", tok)
		}
		var raw json.RawMessage
		if err = dec.Decode(&raw); err != nil {
			return nil, nil, nil, err
		}
		switch name {
		case "Atype":
			continue
		case "zKeyOrder":
			if err = json.Unmarshal(raw, &order); err != nil {
				return nil, nil, nil, fmt.Errorf("zKeyOrder: %v", err)
			}
			if order == nil {
				order = []string{}
			}
			continue
		}
		names = append(names, name)
		v, cerr := strconv.Atoi(strings.TrimSpace(string(raw)))
		if cerr != nil {
			v = -1
			if t := strings.TrimSpace(string(raw)); t == "null" || t == "nil" {
				v = 0
			}
		}
		vals = append(vals, v)
	}
	if _, err = dec.Token(); err != nil {
		return nil, nil, nil, err
	}
	if dec.More() {
		return nil, nil, nil, fmt.Errorf("trailing data")
	}
	return names, vals, order, nil
}

// intOrNil: the model's number for a value read back: the integer, 0 for nil, -1 for anything else
func intOrNil(x zygo.Sexp) int {
	switch v := x.(type) {
	case *zygo.SexpInt:
		return int(v.Val)
	case *zygo.SexpSentinel:
		if x == zygo.SexpNull {
			return 0
		}
	}
	return -1
}

// nonNil: the values that are not nil (the printed forms are mined for the integers only)
func nonNil(vs []int) []int {
	var out []int
	for _, v := range vs {
		if v != 0 {
			out = append(out, v)
		}
	}
	return out
}

func eqInts(a, b []int) bool {
	if len(a) != len(b) {
		return false
	}
	for i := range a {
		if a[i] != b[i] {
			return false
		}
	}
	return true
}

func execHash(body json.RawMessage) *kernel.Result {
	var sc hashScenario
	res := &kernel.Result{}
	if err := json.Unmarshal(body, &sc); err != nil {
		res.Violate("", "harness", "bad-scenario", err.Error())
		return res
	}
	env := zy.New(sc.Env)
	defer env.Close()
	m := &hmodel{vals: map[string]int{}}

	symnums := map[int]string{}
	src := make([]string, len(sc.Keys))
	canon := make([]string, len(sc.Keys))
	for i, k := range sc.Keys {
		canon[i] = specCanon(k)
		switch k.Kind {
		case "sym":
			src[i] = "%" + k.Text
		case "dotsym":
			src[i] = "(quote " + k.Text + ")"
		case "str":
			src[i] = strconv.Quote(k.Text)
		case "int", "chr", "arrN":
			src[i] = k.Text
		case "arr1":
			src[i] = "[" + k.Text + "]"
		case "arr2":
			src[i] = "[[" + k.Text + "]]"
		case "symnum":
			n := env.MakeSymbol(k.Text).Number()
			symnums[n] = k.Text
			src[i] = strconv.Itoa(n)
		}
	}
	// a plain int key that happens to equal a used symbol number would be misread; drop the mapping then
	for i, k := range sc.Keys {
		if k.Kind == "int" || k.Kind == "arr1" || k.Kind == "arr2" {
			v, _ := strconv.Atoi(k.Text)
			if _, clash := symnums[v]; clash {
				_ = i
				delete(symnums, v)
				res.Probe("symnum-clash-dropped")
				return res // degenerate scenario, nothing checked
			}
		}
	}

	ev := func(text string) zy.Outcome {
		res.Execs++
		return zy.Eval(env, text+" ", zy.DefaultBudget)
	}
	fail := func(clause, site, f string, a ...interface{}) {
		res.Violate("C14", clause, site, fmt.Sprintf(f, a...))
	}

	// construction
	var ctor string
	switch sc.Ctor {
	case "empty":
		ctor = "(def h (hash))"
	case "hash", "msgmap":
		var sb strings.Builder
		if sc.Ctor == "hash" {
			sb.WriteString("(def h (hash")
		} else {
			sb.WriteString("(def h (msgmap \"hash\" (list")
		}
		for j, ki := range sc.Init {
			fmt.Fprintf(&sb, " %s %d", src[ki], 900+j)
		}
		if sc.Ctor == "msgmap" {
			sb.WriteString(")")
		}
		sb.WriteString("))")
		ctor = sb.String()
	case "curly":
		// JSON-style literal; only for symbol/string keys, otherwise the (hash ...) form
		named := len(sc.Init) > 0
		for _, ki := range sc.Init {
			if k := sc.Keys[ki]; !(k.Kind == "sym" || (k.Kind == "str" && k.Text != "")) {
				named = false
			}
		}
		var sb strings.Builder
		if named {
			sb.WriteString("(def h {")
			for j, ki := range sc.Init {
				if sc.Keys[ki].Kind == "sym" {
					fmt.Fprintf(&sb, " %s:%d", sc.Keys[ki].Text, 900+j)
				} else {
					fmt.Fprintf(&sb, " %s:%d", src[ki], 900+j)
				}
			}
			sb.WriteString("})")
			res.Probe("curly-literal")
		} else {
			sb.WriteString("(def h (hash")
			for j, ki := range sc.Init {
				fmt.Fprintf(&sb, " %s %d", src[ki], 900+j)
			}
			sb.WriteString("))")
		}
		ctor = sb.String()
	}
	o := ev(ctor)
	if !o.OK() {
		if o.Panicked {
			fail("C14.P-panic", "ctor@"+o.Site, "constructor %s panicked: %s", ctor, o.PanicMsg)
		} else if sc.Ctor == "msgmap" {
			// msgmap may legitimately refuse non-symbol keys; fall back to hash
			res.Probe("msgmap-refused")
			ctor = strings.Replace(strings.Replace(ctor, "(msgmap \"hash\" (list", "(hash", 1), ")))", "))", 1)
			if o2 := ev(ctor); !o2.OK() {
				fail("C14.V-value", "ctor", "constructor %s failed: %s", ctor, o2)
				return res
			}
		} else {
			fail("C14.V-value", "ctor", "constructor %s failed: %s", ctor, o)
			return res
		}
	}
	if sc.Ctor != "empty" {
		for j, ki := range sc.Init {
			m.set(canon[ki], 900+j)
		}
	}
	// values ≥1000 are unique per op; constructor values 900.. are < 1000 and so
	// are re-written to the unique range right away to make every value attributable
	for j, ki := range sc.Init {
		v := 5000 + j
		if o := ev(fmt.Sprintf("(hset h %s %d)", src[ki], v)); !o.OK() {
			fail("C14.V-value", "hset", "re-set of constructor key %s failed: %s", src[ki], o)
			return res
		}
		m.set(canon[ki], v)
	}

	hexpr := func(via string) string {
		switch via {
		case "g":
			return "g"
		case "arr":
			return "(aget arr 0)"
		}
		return "h"
	}

	accN := 0
	observe := func(step int, full bool) bool {
		ok := true
		// len
		o := ev("(len h)")
		if !o.OK() {
			site := "len"
			if o.Panicked {
				site += "@" + o.Site
			}
			fail("C14.L-len", site, "step %d: (len h) gave %s, model size %d", step, o, len(m.keys))
			ok = false
		} else if iv, isInt := o.Val.(*zygo.SexpInt); !isInt || int(iv.Val) != len(m.keys) {
			fail("C14.L-len", "len", "step %d: (len h) = %s, model size %d", step, o, len(m.keys))
			ok = false
		}
		// keys
		o = ev("(keys h)")
		if arr, isArr := o.Val.(*zygo.SexpArray); !o.OK() || !isArr {
			fail("C14.O-order", "keys", "step %d: (keys h) gave %s", step, o)
			ok = false
		} else {
			var got []string
			for _, x := range arr.Val {
				got = append(got, sexpCanon(x, symnums))
			}
			if strings.Join(got, "\x00") != strings.Join(m.keys, "\x00") {
				fail("C14.O-order", "keys", "step %d: (keys h) = %v, model %v", step, got, m.keys)
				ok = false
			}
		}
		if !full {
			return ok
		}
		res.Probe("full-observation")
		// every key of the universe
		for i := range sc.Keys {
			want, live := m.vals[canon[i]]
			o := ev(fmt.Sprintf("(hget h %s)", src[i]))
			if live {
				if !o.OK() || intOrNil(o.Val) != want {
					fail("C14.V-value", "hget", "step %d: (hget h %s) = %s, model %d", step, src[i], o, want)
					ok = false
				}
			} else if o.Kind() != "err" {
				fail("C14.V-value", "hget-missing", "step %d: (hget h %s) of a missing key gave %s, expected an error", step, src[i], o)
				ok = false
			}
		}
		// positional access
		for i := 0; i <= len(m.keys); i++ {
			o := ev(fmt.Sprintf("(hpair h %d)", i))
			if i == len(m.keys) {
				if o.Kind() == "val" {
					fail("C14.O-order", "hpair-end", "step %d: (hpair h %d) beyond the %d live keys returned %s", step, i, len(m.keys), o)
					ok = false
				} else if o.Kind() == "panic" {
					fail("C14.P-panic", "hpair@"+o.Site, "step %d: (hpair h %d) panicked: %s", step, i, o.PanicMsg)
					ok = false
				}
				continue
			}
			pr, isPair := o.Val.(*zygo.SexpPair)
			good := o.OK() && isPair
			if good {
				k := sexpCanon(pr.Head, symnums)
				var v int = -1
				if t, isT := pr.Tail.(*zygo.SexpPair); isT {
					v = intOrNil(t.Head)
				}
				good = k == m.keys[i] && v == m.vals[m.keys[i]]
			}
			if !good {
				fail("C14.O-order", "hpair", "step %d: (hpair h %d) = %s, model (%s %d)", step, i, o, m.keys[i], m.vals[m.keys[i]])
				ok = false
			}
		}
		// printed form: live values once each in order
		o = ev("(str h)")
		if s, isStr := o.Val.(*zygo.SexpStr); !o.OK() || !isStr {
			fail("C14.O-order", "str", "step %d: (str h) gave %s", step, o)
			ok = false
		} else if !balancedPrint(s.S) {
			fail("C14.O-order", "str-form", "step %d: (str h) = %q is not a well-formed printed hash (unbalanced brackets); content %v", step, s.S, m.keys)
			ok = false
		} else if got := bigInts(s.S); !eqInts(got, nonNil(m.valueList())) {
			fail("C14.O-order", "str", "step %d: (str h) = %q shows values %v, model %v", step, s.S, got, nonNil(m.valueList()))
			ok = false
		}
		// range iteration, both forms
		// a fresh accumulator name per observation: rebinding a variable that held a
		// typed array is subject to the language's own rebinding type rule (not C14's concern)
		accN++
		acc := fmt.Sprintf("acc%d", accN)
		for _, rf := range []struct{ name, code string }{
			{"range-macro", "(def " + acc + "m []) (def " + acc + "mk (list)) (range k v h (set " + acc + "m (append " + acc + "m v)) (set " + acc + "mk (cons k " + acc + "mk))) (list " + acc + "m " + acc + "mk)"},
			{"range-go", "(def " + acc + "g []) (def " + acc + "gk (list)) {for k, v := range h { " + acc + "g = (append " + acc + "g v); " + acc + "gk = (cons k " + acc + "gk) }} (list " + acc + "g " + acc + "gk)"},
			// the loop variables may have any name
			{"range-macro-ni", "(def " + acc + "n []) (def " + acc + "nk (list)) (range n i h (set " + acc + "n (append " + acc + "n i)) (set " + acc + "nk (cons n " + acc + "nk))) (list " + acc + "n " + acc + "nk)"},
			{"range-macro-in", "(def " + acc + "i []) (def " + acc + "ik (list)) (range i n h (set " + acc + "i (append " + acc + "i n)) (set " + acc + "ik (cons i " + acc + "ik))) (list " + acc + "i " + acc + "ik)"},
		} {
			o = ev(rf.code)
			var arr *zygo.SexpArray
			var keysSeen []string
			if pr, isPair := o.Val.(*zygo.SexpPair); o.OK() && isPair {
				arr, _ = pr.Head.(*zygo.SexpArray)
				if t, isT := pr.Tail.(*zygo.SexpPair); isT {
					// the keys were consed up: last visited first
					for x := t.Head; x != zygo.SexpNull; {
						c, isC := x.(*zygo.SexpPair)
						if !isC {
							break
						}
						keysSeen = append([]string{sexpCanon(c.Head, symnums)}, keysSeen...)
						x = c.Tail
					}
				}
			}
			if arr == nil {
				fail("C14.O-order", rf.name, "step %d: %s gave %s", step, rf.code, o)
				ok = false
			} else {
				var got []int
				for _, x := range arr.Val {
					got = append(got, intOrNil(x))
				}
				if !eqInts(got, m.valueList()) {
					fail("C14.O-order", rf.name, "step %d: range visited values %v, model %v", step, got, m.valueList())
					ok = false
				} else if strings.Join(keysSeen, "\x00") != strings.Join(m.keys, "\x00") {
					fail("C14.O-order", rf.name+"-keys", "step %d: range presented the keys %v, model %v", step, keysSeen, m.keys)
					ok = false
				}
			}
		}
		// json encoding: a well-formed JSON object whose members (apart from the type tag and the key-order list the
		// encoder adds) are the live keys once each in order with their values; member names are checked against the
		// key text for symbol and string keys (other key kinds have no prescribed name)
		if len(m.keys) > 0 {
			res.Probe("json-observed")
			o = ev("(json h)")
			if o.OK() {
				txt := ""
				switch r := o.Val.(type) {
				case *zygo.SexpRaw:
					txt = string(r.Val)
				default:
					txt = zy.Show(o.Val)
				}
				names, vals, order, perr := jsonMembers(txt)
				switch {
				case perr != nil:
					fail("C14.O-order", "json-form", "step %d: (json h) = %q is not well-formed JSON: %v; content %v", step, txt, perr, m.keys)
					ok = false
				case !eqInts(vals, m.valueList()):
					fail("C14.O-order", "json", "step %d: (json h) = %q has member values %v, model %v", step, txt, vals, m.valueList())
					ok = false
				case order != nil && strings.Join(order, "\x00") != strings.Join(names, "\x00"):
					fail("C14.O-order", "json-keyorder", "step %d: (json h) = %q lists key order %v but has members %v", step, txt, order, names)
					ok = false
				default:
					for i, k := range m.keys {
						if (strings.HasPrefix(k, "sym:") || strings.HasPrefix(k, "str:")) && names[i] != k[4:] {
							fail("C14.O-order", "json-name", "step %d: (json h) = %q names member %d %q, the key is %s", step, txt, i, names[i], k)
							ok = false
							break
						}
					}
				}
				// and back: decoding what was encoded gives the same number of keys with the same values in the same order
				// (keys of different kinds may share one member name, e.g. the symbol a and the string "a": JSON cannot hold
				// both, so the way back is only judged when the names are distinct)
				distinct := map[string]bool{}
				for _, n := range names {
					distinct[n] = true
				}
				if len(distinct) != len(names) {
					res.Probe("json-name-clash")
				}
				if ok && len(distinct) == len(names) {
					for _, rtCode := range []string{"(unjson (json h))", "(unmsgpack (msgpack h))"} {
						accN++
						rv := fmt.Sprintf("rt%d", accN)
						o = ev("(def " + rv + "v []) (range k v " + rtCode + " (set " + rv + "v (append " + rv + "v v))) " + rv + "v")
						if arr, isArr := o.Val.(*zygo.SexpArray); !o.OK() || !isArr {
							site := "roundtrip"
							if o.Panicked {
								site += "@" + o.Site
							}
							fail("C14.O-order", site, "step %d: walking %s gave %s; content %v", step, rtCode, o, m.keys)
							ok = false
						} else {
							var got []int
							for _, x := range arr.Val {
								got = append(got, intOrNil(x))
							}
							if !eqInts(got, m.valueList()) {
								fail("C14.O-order", "roundtrip", "step %d: %s holds values %v, model %v", step, rtCode, got, m.valueList())
								ok = false
							}
						}
					}
				}
			} else if o.Panicked {
				fail("C14.P-panic", "json@"+o.Site, "step %d: (json h) panicked: %s", step, o.PanicMsg)
				ok = false
			} else {
				fail("C14.O-order", "json", "step %d: (json h) failed: %s; content %v", step, o, m.keys)
				ok = false
			}
		}
		return ok
	}

	sig := func(op string) {
		// abstract state: (size, position of the touched key, op) up to key renaming
		res.Sig(fmt.Sprintf("%s|n=%d|%s", op, len(m.keys), abstractShape(m, canon)))
	}

	if !observe(-1, true) {
		return res
	}
	aliased := false
	plainEv := ev
	for step, op := range sc.Ops {
		ev = plainEv
		if op.Pretty && (op.Op == "hset" || op.Op == "hdel" || op.Op == "hget" || op.Op == "hgetd" || op.Op == "hsetnil") {
			// the operation itself runs with the pretty-printing flag on; it is off again for the observations
			res.Probe("operation-under-pretty-flag")
			ev = func(text string) zy.Outcome {
				plainEv("(pretty true)")
				o := plainEv(text)
				plainEv("(pretty false)")
				return o
			}
		}
		if !aliased {
			op.Via = "h" // (a minimised history may have lost its alias step)
		}
		H := hexpr(op.Via)
		k := src[op.K]
		ck := canon[op.K]
		_, live := m.vals[ck]
		switch op.Op {
		case "alias":
			if o := ev("(def g h) (def arr [h])"); !o.OK() {
				fail("C14.V-value", "alias", "step %d: aliasing failed: %s", step, o)
				return res
			}
			res.Probe("alias")
			aliased = true
		case "hset":
			text := fmt.Sprintf("(hset %s %s %d)", H, k, op.V)
			switch {
			case op.Route == "index" && op.Via != "arr" && k != "[]" && strings.Count(k, "[") <= 1:
				ik := k
				if sc.Keys[op.K].Kind == "arr1" || sc.Keys[op.K].Kind == "arrN" || sc.Keys[op.K].Kind == "arr2" {
					ik = k[1 : len(k)-1] // h[1 2] indexes with the array key [1 2]: one pair of brackets less
				}
				text = fmt.Sprintf("{%s[%s] = %d}", H, ik, op.V)
				res.Probe("write-by-index-assignment")
			case op.Route == "keyvar" && sc.Keys[op.K].Kind == "arrN" && strings.Count(k, " ") >= 1 && !strings.HasPrefix(k, "[[") && !strings.HasPrefix(k, "[]"):
				// the key is an array held in a variable, which the script changes afterwards: the hash keeps the key
				// it was given (a key is a value, not a reference to the caller's array)
				accN++
				kv := fmt.Sprintf("kv%d", accN)
				text = fmt.Sprintf("(def %s %s) (hset %s %s %d) (aset %s 0 424242) nil", kv, k, H, kv, op.V, kv)
				res.Probe("key-array-mutated-after-store")
			case op.Route == "dot" && sc.Keys[op.K].Kind == "sym" && op.Via != "arr":
				text = fmt.Sprintf("{%s.%s = %d}", H, sc.Keys[op.K].Text, op.V)
				res.Probe("write-by-dot-path")
			}
			o := ev(text)
			if !o.OK() && !o.Panicked && sc.Keys[op.K].Kind == "dotsym" {
				// refused as a key: nothing may have changed (the observation below decides)
				res.Probe("dotted-key-refused")
				break
			}
			if !o.OK() {
				site := "hset"
				if o.Panicked {
					site += "@" + o.Site
				}
				fail("C14.V-value", site, "step %d: %s gave %s", step, text, o)
				return res
			}
			if live {
				res.Probe("update-existing")
			}
			m.set(ck, op.V)
		case "hdel":
			o := ev(fmt.Sprintf("(hdel %s %s)", H, k))
			if !o.OK() {
				site := "hdel"
				if o.Panicked {
					site += "@" + o.Site
				}
				fail("C14.V-value", site, "step %d: (hdel %s %s) gave %s", step, H, k, o)
				return res
			}
			if !live {
				res.Probe("delete-missing")
			} else {
				res.Probe("delete-live")
			}
			m.del(ck)
		case "hget":
			o := ev(fmt.Sprintf("(hget %s %s)", H, k))
			if live {
				if !o.OK() || intOrNil(o.Val) != m.vals[ck] {
					fail("C14.V-value", "hget", "step %d: (hget %s %s) = %s, model %d", step, H, k, o, m.vals[ck])
				}
			} else if o.Kind() != "err" {
				fail("C14.V-value", "hget-missing", "step %d: (hget %s %s) of a missing key gave %s", step, H, k, o)
			}
		case "hgetd":
			o := ev(fmt.Sprintf("(hget %s %s 77)", H, k))
			want := 77
			if live {
				want = m.vals[ck]
			}
			if !o.OK() || intOrNil(o.Val) != want {
				fail("C14.V-value", "hget-default", "step %d: (hget %s %s 77) = %s, model %d", step, H, k, o, want)
			}
		case "hsetnil":
			o := ev(fmt.Sprintf("(hset %s %s nil)", H, k))
			if !o.OK() && !o.Panicked && sc.Keys[op.K].Kind == "dotsym" {
				res.Probe("dotted-key-refused")
				break
			}
			if !o.OK() {
				fail("C14.V-value", "hset-nil", "step %d: (hset %s %s nil) gave %s", step, H, k, o)
				return res
			}
			res.Probe("nil-value-stored")
			m.set(ck, 0) // 0 stands for nil in the model (real values are >= 900)
		case "obs":
		case "keysmut":
			// the list returned by keys belongs to the caller: writing into it and growing it changes nothing in the hash
			accN++
			kv := fmt.Sprintf("ks%d", accN)
			ev(fmt.Sprintf("(def %s (keys %s)) (cond (> (len %s) 0) (aset %s 0 (aget %s (- (len %s) 1))) nil)", kv, H, kv, kv, kv, kv))
			ev(fmt.Sprintf("(set %s (append %s (aget %s 0)))", kv, kv, kv))
			// and so do the keys in it: an array key handed out by keys, hpair or range is the caller's copy
			ev(fmt.Sprintf("(range kq vq %s (cond (array? kq) (cond (> (len kq) 1) (aset kq 0 424242) nil) nil))", H))
			ev(fmt.Sprintf("(def %sb (keys %s)) (for [(def iq 0) (< iq (len %sb)) (def iq (+ iq 1))] (let [kq (aget %sb iq)] (cond (array? kq) (cond (> (len kq) 1) (aset kq 0 424243) nil) nil)))", kv, H, kv, kv))
			ev(fmt.Sprintf("(cond (> (len %s) 0) (let [kq (first (hpair %s 0))] (cond (array? kq) (cond (> (len kq) 1) (aset kq 0 424244) nil) nil)) nil)", H, H))
			res.Probe("keys-list-mutated")
		}
		sig(op.Op)
		res.Tracef("%d %s %s -> n=%d", step, op.Op, ck, len(m.keys))
		full := op.Op == "obs" || step == len(sc.Ops)-1
		if !observe(step, full) {
			break
		}
		if len(res.Violations) > 0 {
			break
		}
	}
	res.Steps = kernel.Steps()
	return res
}

// abstractShape: the model state with keys renamed by kind class, enough to
// tell histories apart that reach structurally different states.
func abstractShape(m *hmodel, canon []string) string {
	var sb strings.Builder
	for _, k := range m.keys {
		sb.WriteString(k[:3])
		sb.WriteByte(',')
	}
	sb.WriteString(fmt.Sprintf("/dead=%d", len(canon)-len(m.keys)))
	return sb.String()
}

func shrinkHash(body json.RawMessage) []json.RawMessage {
	var sc hashScenario
	if json.Unmarshal(body, &sc) != nil {
		return nil
	}
	var out []json.RawMessage
	emit := func(s hashScenario) {
		b, _ := json.Marshal(s)
		out = append(out, b)
	}
	// drop halves, then single ops
	n := len(sc.Ops)
	for _, chunk := range []int{n / 2, n / 4, 1} {
		if chunk < 1 {
			continue
		}
		for i := 0; i+chunk <= n; i += chunk {
			s := sc
			s.Ops = append(append([]hop{}, sc.Ops[:i]...), sc.Ops[i+chunk:]...)
			emit(s)
		}
	}
	if len(sc.Init) > 0 {
		s := sc
		s.Init = nil
		emit(s)
		for i := range sc.Init {
			s := sc
			s.Init = append(append([]int{}, sc.Init[:i]...), sc.Init[i+1:]...)
			emit(s)
		}
	}
	if sc.Ctor != "empty" && len(sc.Init) == 0 {
		s := sc
		s.Ctor = "empty"
		emit(s)
	}
	if sc.Env != "std" {
		s := sc
		s.Env = "std"
		emit(s)
	}
	for i, op := range sc.Ops {
		if op.Via != "" && op.Via != "h" {
			s := sc
			s.Ops = append([]hop{}, sc.Ops...)
			s.Ops[i].Via = ""
			emit(s)
		}
		if op.Route != "" {
			s := sc
			s.Ops = append([]hop{}, sc.Ops...)
			s.Ops[i].Route = ""
			emit(s)
		}
		if op.Op == "obs" || op.Op == "hgetd" {
			s := sc
			s.Ops = append([]hop{}, sc.Ops...)
			s.Ops[i].Op = "hget"
			emit(s)
		}
	}
	return out
}

func init() {
	quickN, thoroughN := 4000, 120000
	kernel.Register(&kernel.Plan{
		Property: "C14",
		Level:    "exploration",
		Rule: "seeded operation histories (hset/hdel/hget/hget-default/observe/alias, length 1-40, key universe 2-8 over symbols, strings, ints, chars, " +
			"one-element and longer arrays, with bucket collisions by construction: int == symbol number, two strings with equal FNV-1) issued through EvalString and compared after every step " +
			"with an insertion-ordered association list; plus exhaustive enumeration of all histories up to a length bound over 3 keys x 4 op kinds. " +
			"distinct_nontrivial counts distinct (operation kind, model size, ordered key-kind shape, dead-key count) signatures reached after at least one operation.",
		Components: map[string][]string{
			"real": {"lexer", "parser", "generator", "VM", "hash builtins (hset/hdel/hget/keys/hpair/len/str/json)", "range macro", "go-style for-range lowering"},
			"stub": {"none (the reference ordered map is the oracle, not a replacement)"},
		},
		Assume: []string{
			"key identity follows the language's ==; a scenario never holds an int and a char of equal value, nor x together with [x]",
			"written values are unique integers >=1000 so every observed value is attributable to one write",
		},
		Parts: []*kernel.Part{
			{
				Name: "exhaustive",
				Count: func(tier string) int {
					if tier == "thorough" {
						return exhCount(5)
					}
					return exhCount(3)
				},
				Generate:   func(r *kernel.RNG, tier string, i int) interface{} { return genHashExhaustive(5)(r, tier, i) },
				Execute:    execHash,
				Shrink:     shrinkHash,
				Exhaustive: func(string) bool { return true },
			},
			{
				Name: "seeded",
				Count: func(tier string) int {
					if tier == "thorough" {
						return thoroughN
					}
					return quickN
				},
				Generate: genHashScenario,
				Execute:  execHash,
				Shrink:   shrinkHash,
			},
		},
	})
}
