package eng

import (
	"sort"
	"encoding/json"
	"errors"
	"fmt"
	"os"
	"path/filepath"
	"strings"

	"verifsim/kernel"
	"verifsim/zy"

	"github.com/glycerine/zygomys/v9/zygo"
)

// Engine `vmsession`: one long-lived interpreter, the simulator owns the
// host side (functions registered through the public API that fail on
// demand at their k-th call). Decides C05 (fault enumeration), C04
// (invariant monitor over evaluation histories) and the back-end half of C01.

type vmScenario struct {
	Prop    string   `json:"prop"` // C05 C04 C01
	Mode    string   `json:"mode"` // faults | grouping | growth
	Env     string   `json:"env"`  // std dup clone
	Forms   []vmForm `json:"forms"`
	Budget  int64    `json:"budget"`
	OnlyK   int      `json:"only_k,omitempty"` // replay/minimise: restrict the fault enumeration
	Kinds   []string `json:"kinds,omitempty"`  // fault kinds to enumerate: err panic
	Groups  []int    `json:"groups,omitempty"`
	Repeat  int      `json:"repeat,omitempty"`
	EmptyAt []int    `json:"empty_at,omitempty"`
	Empties []string `json:"empties,omitempty"`
	Files   map[string]string `json:"files,omitempty"` // simulated disk for (source ...)
	// the host calls script functions directly through the public Apply API between evaluations (idle interpreter)
	HostApply bool `json:"host_apply,omitempty"`
	// mode "repeat": after the (fault-free) forms, this failing form is evaluated Repeat times, then the battery
	FailForm *vmForm `json:"fail_form,omitempty"`
	// C01 uses this engine for its panic oracle only
	PanicsOnly bool `json:"panics_only,omitempty"`
}

// loadOnlyMark: a text with this prefix is handed to LoadString only (compiled and queued, not run)
const loadOnlyMark = "\x00load-only:"

// ---- host side

type host struct {
	calls    int
	failK    int
	failKind string
	fired    bool
	trace    []string
	snapAt   map[int]string // call# -> global snapshot (twin run B)
	formAt   map[int]int    // call# -> form index
	depthAt  map[int]string
	curForm  int
	snapshot func() string
	depthSig func() string
	wantSnap bool
	inMacro  bool
	macroAt  map[int]bool
}

var errInjected = errors.New("hf-injected-error")

func (h *host) enter(tag string) error {
	h.calls++
	h.trace = append(h.trace, tag)
	if h.wantSnap {
		h.snapAt[h.calls] = h.snapshot()
		h.formAt[h.calls] = h.curForm
		h.depthAt[h.calls] = h.depthSig()
	}
	if h.calls == h.failK && !h.fired {
		h.fired = true
		// a host macro runs at compile time outside any recover of the library: a panic in it is the
		// host's own panic travelling back to the host, which no property forbids; inject an error instead
		if h.failKind == "panic" && !h.inMacro {
			panic("hf-injected-panic")
		}
		return errInjected
	}
	return nil
}

func installHost(env *zygo.Zlisp, h *host) {
	env.AddFunction("hf", func(e *zygo.Zlisp, name string, args []zygo.Sexp) (zygo.Sexp, error) {
		if len(args) != 1 {
			return zygo.SexpNull, zygo.WrongNargs
		}
		if err := h.enter("hf:" + zy.Show(args[0])); err != nil {
			return zygo.SexpNull, err
		}
		return args[0], nil
	})
	env.AddBuilder("hb", func(e *zygo.Zlisp, name string, args []zygo.Sexp) (zygo.Sexp, error) {
		if len(args) != 2 {
			return zygo.SexpNull, zygo.WrongNargs
		}
		if err := h.enter("hb:" + zy.Show(args[0])); err != nil {
			return zygo.SexpNull, err
		}
		// a builder receives its arguments unevaluated and calls back into the VM
		return zygo.EvalFunction(e, "hb-eval", []zygo.Sexp{args[1]})
	})
	// a host function that calls a script function back through the public Apply API
	env.AddFunction("hc", func(e *zygo.Zlisp, name string, args []zygo.Sexp) (zygo.Sexp, error) {
		if len(args) != 2 {
			return zygo.SexpNull, zygo.WrongNargs
		}
		if err := h.enter("hc"); err != nil {
			return zygo.SexpNull, err
		}
		fn, isFn := args[0].(*zygo.SexpFunction)
		if !isFn {
			return zygo.SexpNull, fmt.Errorf("hc needs a function")
		}
		return e.Apply(fn, []zygo.Sexp{args[1]})
	})
	env.AddMacro("hm", func(e *zygo.Zlisp, name string, args []zygo.Sexp) (zygo.Sexp, error) {
		if len(args) != 1 {
			return zygo.SexpNull, zygo.WrongNargs
		}
		h.inMacro = true
		defer func() { h.inMacro = false }()
		if err := h.enter("hm"); err != nil {
			return zygo.SexpNull, err
		}
		return zygo.MakeList([]zygo.Sexp{e.MakeSymbol("+"), args[0], &zygo.SexpInt{Val: 1}}), nil
	})
}

// ---- observation

var snapNames = []string{"g0", "g1", "g2", "g3", "g4", "g5", "h0", "h1", "r0", "r1", "f0", "f1", "f2", "sv0", "sv1", "zq1", "zq2", "zq3"}
var snapMacros = []string{"m0", "m1", "zm"}

// globalSnapshot never panics: an interpreter whose stacks are so damaged that its global scope cannot
// be read yields a marker that equals no healthy snapshot
func globalSnapshot(env *zygo.Zlisp) (snap string) {
	defer func() {
		if r := recover(); r != nil {
			snap = fmt.Sprintf("<<global scope unreadable: %v>>", r)
		}
	}()
	return globalSnapshot1(env)
}

// The struct registry is process-global: a (struct Dog0 ...) in one run would be pre-bound in every interpreter
// created afterwards. Each run of a program starts from the registry as it was when the process had created its
// first interpreter, so that runs of one scenario (fault-free, faulty, twin) are comparable by their global scopes.
// (What leaks between interpreters through the registry is C20's and C17's subject, not this engine's.)
var pristineRegistry, pristineUserdef map[string]*zygo.RegisteredType

func captureRegistry() {
	if pristineRegistry != nil {
		return
	}
	closeQuietly(zy.New("std"))
	pristineRegistry = map[string]*zygo.RegisteredType{}
	pristineUserdef = map[string]*zygo.RegisteredType{}
	for k, v := range zygo.GoStructRegistry.Registry {
		pristineRegistry[k] = v
	}
	for k, v := range zygo.GoStructRegistry.Userdef {
		pristineUserdef[k] = v
	}
}

func resetRegistry() {
	captureRegistry()
	for k := range zygo.GoStructRegistry.Registry {
		if _, ok := pristineRegistry[k]; !ok {
			delete(zygo.GoStructRegistry.Registry, k)
		}
	}
	for k, v := range pristineRegistry {
		zygo.GoStructRegistry.Registry[k] = v
	}
	for k := range zygo.GoStructRegistry.Userdef {
		if _, ok := pristineUserdef[k]; !ok {
			delete(zygo.GoStructRegistry.Userdef, k)
		}
	}
	for k, v := range pristineUserdef {
		zygo.GoStructRegistry.Userdef[k] = v
	}
}

// baselineGlobals: what a fresh interpreter with the standard setup and the simulator's host functions binds
var baselineGlobals map[string]bool

func baseline() map[string]bool {
	if baselineGlobals == nil {
		baselineGlobals = map[string]bool{}
		resetRegistry()
		env := zy.New("std")
		installHost(env, &host{snapAt: map[int]string{}, formAt: map[int]int{}, depthAt: map[int]string{}})
		for _, n := range env.VerifGlobalNames() {
			baselineGlobals[n] = true
		}
		closeQuietly(env)
	}
	return baselineGlobals
}

// globalSnapshot1: every name bound in the global scope beyond the baseline, with its printed value, and the
// user-defined macros: whatever a program defined, not a list of names of ours
func globalSnapshot1(env *zygo.Zlisp) string {
	var sb strings.Builder
	base := baseline()
	var entries []string
	for _, n := range env.VerifGlobalNames() {
		if base[n] {
			continue
		}
		v, ok := env.VerifGlobal(n)
		if !ok {
			continue
		}
		// (generated names carry a serial number that legitimately depends on how much was compiled before)
		entries = append(entries, zy.NormVal(n)+"="+zy.NormVal(zy.Show(v))+";")
	}
	sort.Strings(entries)
	for _, e := range entries {
		sb.WriteString(e)
	}
	have := map[string]bool{}
	for _, m := range env.VerifMacroNames() {
		have[m] = true
	}
	for _, m := range snapMacros {
		if have[m] {
			sb.WriteString("macro:" + m + ";")
		}
	}
	return sb.String()
}

type depthVec struct{ Data, Scope, Addr, Loop int }

func depthsOf(env *zygo.Zlisp) (dv depthVec, d zygo.VerifDepthInfo) {
	defer func() {
		if r := recover(); r != nil {
			// unreadable control state is certainly not "at rest"
			d = zygo.VerifDepthInfo{Data: -1, Scope: -1, Addr: -1, Loop: -1, ScopeName: []string{fmt.Sprintf("<<unreadable: %v>>", r)}}
			dv = depthVec{-1, -1, -1, -1}
		}
	}()
	d = env.VerifDepths()
	return depthVec{d.Data, d.Scope, d.Addr, d.Loop}, d
}

// atRest: the interpreter is back where an idle interpreter is.
func atRest(d zygo.VerifDepthInfo, dataBefore int, scopeIdle int) (bool, string) {
	var bad []string
	if d.Data != dataBefore {
		bad = append(bad, fmt.Sprintf("data stack %d (was %d before the evaluation)", d.Data, dataBefore))
	}
	if d.Scope != scopeIdle {
		bad = append(bad, fmt.Sprintf("scope stack %d %v", d.Scope, d.ScopeName))
	}
	if d.Addr != 0 {
		bad = append(bad, fmt.Sprintf("call stack %d", d.Addr))
	}
	if d.Loop != 0 {
		bad = append(bad, fmt.Sprintf("loop stack %d", d.Loop))
	}
	if !d.InMain {
		bad = append(bad, "current function is not main")
	}
	if !d.AtEnd {
		bad = append(bad, fmt.Sprintf("pc %d not at end of main (%d)", d.Pc, d.MainLen))
	}
	if len(bad) == 0 {
		return true, ""
	}
	return false, strings.Join(bad, "; ")
}

func restSite(msg string) string {
	var parts []string
	for _, k := range []string{"data stack", "scope stack", "call stack", "loop stack", "current function", "pc"} {
		if strings.Contains(msg, k) {
			parts = append(parts, strings.Fields(k)[0])
		}
	}
	return strings.Join(parts, "+")
}

// ---- one run of a program

type runOut struct {
	outs      []string // per evaluated text: outcome
	kinds     []string
	restMsg   []string // per evaluated text: "" or what is not at rest
	startSnap []string
	endSnap   string
	calls     int
	h         *host
	panicSite string
	panicMsg  string
	budget    bool
	failedAt  int // index of the text in which the injected fault fired (-1)
	snapAfter []string
	traceLen  []int
}

var battery = []string{
	"(+ 1 2)",
	"(def zq1 (* 6 7))",
	"zq1",
	"(let [s 0] (for [(def i 0) (< i 4) (def i (+ i 1))] (cond (== i 1) (continue) (== i 3) (break) 0) (set s (+ s i))) s)",
	"(def zq2 (let [k 5] (fn [a] (+ a k))))",
	"(zq2 10)",
	"(apply zq2 [1])",
	"(map zq2 [1 2 3])",
	"g0", "g1", "g2", "g3", "g4", "g5", "h0", "h1", "r0", "r1",
	"(f0 1)", "(f0 1 2)", "(f1 2)", "(f1 2 3)", "(f2 1)", "(f2 1 1)",
	"(hash a: 1 b: [1 2 3])",
	"{ 1 + 2 * 3 }",
	"(defmac zm [x] ^(+ ~x 100))",
	"(zm 5)",
	"(eval (quote (+ 1 (hf 77))))",
	"(undefinedFunction 1)",
	"(for outer: [(def i 0) (< i 2) (def i (+ i 1))] (for inner: [(def j 0) (< j 2) (def j (+ j 1))] (cond (== j 1) (break outer:) 0)))",
	"(def zq3 [1 2 3])",
	"(aget zq3 9)",
	"(m0 4)", "(m1 4)",
	"(t0)", "(t1)", "(t2)", "(t0)", "sv0", "sv1", "(pk0.Get)", "pk0.Open",
	"(- 10 3)",
	// walkers of nested values (comparison, printing, encoding, typing, compiling a literal)
	"(== [1 [2 [3 \"x\"]]] [1 [2 [3 \"x\"]]])", "(str [1 [2 (hash a: [3])]])", "(str (json (hash a: [1 [2]])))", "(eval (quote [1 [2 [3]]]))", "(< [1 2] [1 3])",
}

func newVM(kind string) (*zygo.Zlisp, *zygo.Zlisp) {
	root := zy.New("std")
	switch kind {
	case "dup":
		return root.Duplicate(), root
	case "clone":
		return root.Clone(), root
	}
	return root, root
}

func runProgram(sc *vmScenario, texts []string, formIdx []int, failK int, failKind string, wantSnap bool, res *kernel.Result) *runOut {
	resetRegistry()
	env, root := newVM(sc.Env)
	defer closeQuietly(root)
	h := &host{failK: failK, failKind: failKind, wantSnap: wantSnap, snapAt: map[int]string{}, formAt: map[int]int{}, depthAt: map[int]string{}}
	h.snapshot = func() string { return globalSnapshot(env) }
	h.depthSig = func() string {
		d := env.VerifDepths()
		return fmt.Sprintf("a%d/s%d/l%d", min(d.Addr, 4), min(d.Scope, 5), min(d.Loop, 3))
	}
	installHost(env, h)
	out := &runOut{h: h, failedAt: -1}
	// the scope depth of this interpreter when idle (1 for a fresh one or a Duplicate, 2 for a Clone of an idle interpreter)
	scopeIdle := env.VerifDepths().Scope
	for i, t := range texts {
		if formIdx != nil {
			h.curForm = formIdx[i]
		}
		// (very long runs - one failing form thousands of times - are snapshotted at both ends only)
		snapHere := len(texts) < 500 || i < 50 || i >= len(texts)-120
		if snapHere {
			out.startSnap = append(out.startSnap, globalSnapshot(env))
		} else {
			out.startSnap = append(out.startSnap, "")
		}
		dv, _ := depthsOf(env)
		firedBefore := h.fired
		res.Execs++
		var o zy.Outcome
		if strings.HasPrefix(t, loadOnlyMark) {
			src := strings.TrimPrefix(t, loadOnlyMark)
			o = zy.Guard(func() (zygo.Sexp, error) { return zygo.SexpNull, env.LoadString(src + " ") })
		} else {
			if strings.HasSuffix(t, "\\") {
				o = zy.Eval(env, t, sc.Budget) // (a text that ends in a backslash is handed over as it is)
			} else {
				o = zy.Eval(env, t+" ", sc.Budget)
			}
		}
		if o.Budget {
			out.budget = true
			return out
		}
		if o.Panicked && out.panicSite == "" {
			out.panicSite, out.panicMsg = o.Site, o.PanicMsg
		}
		if h.fired && !firedBefore {
			out.failedAt = i
		}
		out.outs = append(out.outs, zy.NormVal(o.String()))
		out.kinds = append(out.kinds, o.Kind())
		_, di := depthsOf(env)
		ok, msg := atRest(di, dv.Data, scopeIdle)
		if !ok {
			out.restMsg = append(out.restMsg, msg)
		} else {
			out.restMsg = append(out.restMsg, "")
		}
		if snapHere {
			out.snapAfter = append(out.snapAfter, globalSnapshot(env))
		} else {
			out.snapAfter = append(out.snapAfter, "")
		}
		out.traceLen = append(out.traceLen, len(h.trace))
		if o.Kind() != "val" {
			// what the REPL does after an error
			if sc.Mode == "faults" && h.fired && !firedBefore {
				// the property demands the interpreter be at rest by itself: no Clear()
			}
		}
	}
	out.endSnap = globalSnapshot(env)
	out.calls = h.calls
	return out
}

func formTexts(forms []vmForm, skip int) ([]string, []int) {
	var ts []string
	var idx []int
	for i, f := range forms {
		if i == skip {
			continue
		}
		ts = append(ts, f.Text)
		idx = append(idx, i)
	}
	return ts, idx
}

func execVM(body json.RawMessage) *kernel.Result {
	var sc vmScenario
	res := &kernel.Result{}
	if err := json.Unmarshal(body, &sc); err != nil {
		res.Violate("", "harness", "bad-scenario", err.Error())
		return res
	}
	if sc.Budget == 0 {
		sc.Budget = zy.DefaultBudget
	}
	if len(sc.Files) > 0 {
		if err := setupSimDisk(sc.Files); err != nil {
			res.Violate("", "harness", "simdisk", err.Error())
			return res
		}
	}
	switch sc.Mode {
	case "faults":
		execFaults(&sc, res)
	case "grouping":
		execGrouping(&sc, res)
	case "growth":
		execGrowth(&sc, res)
	case "repeat":
		execRepeat(&sc, res)
	}
	res.Steps = kernel.Steps()
	return res
}

var dbgNative func(form, out string)

// setupSimDisk writes the scenario's files into a per-process directory inside the scratch area and makes it
// the working directory, so that (source "s0.zy") finds exactly what the scenario says
func setupSimDisk(files map[string]string) error {
	exe, err := os.Executable()
	if err != nil {
		return err
	}
	dir := filepath.Join(filepath.Dir(exe), fmt.Sprintf("simdisk-%d", os.Getpid()))
	if err := os.MkdirAll(dir, 0755); err != nil {
		return err
	}
	for _, old := range []string{"s0.zy", "s1.zy", "s2.zy", "bad9.zy"} {
		os.Remove(filepath.Join(dir, old))
	}
	for name, content := range files {
		if err := os.WriteFile(filepath.Join(dir, name), []byte(content), 0644); err != nil {
			return err
		}
	}
	return os.Chdir(dir)
}

func checkGroupedFailure(sc *vmScenario, res *kernel.Result, fail func(string, string, string, ...interface{}), texts []string, i, j, k int) {
	grouped := strings.Join(texts[j:k+1], " ")
	mk := func(pre []string, mid string) ([]string, []int) {
		ts := append([]string{}, pre...)
		if mid != "" {
			ts = append(ts, mid)
		}
		ts = append(ts, battery...)
		ix := make([]int, len(ts))
		for x := range ix {
			ix[x] = -1
		}
		return ts, ix
	}
	tsA, ixA := mk(texts[:j], grouped)
	A := runProgram(sc, tsA, ixA, 0, "", false, res)
	tsC, ixC := mk(texts[:j], "") // nothing of the text ran (failure at compile time)
	C := runProgram(sc, tsC, ixC, 0, "", false, res)
	tsR, ixR := mk(texts[:i], "") // the forms in front of the failing one ran (failure at run time)
	R := runProgram(sc, tsR, ixR, 0, "", false, res)
	if A.budget || C.budget || R.budget {
		res.Unbounded++
		return
	}
	res.Probe("grouped-failure")
	res.Sig(fmt.Sprintf("groupedfail|%d|%d|%s", i-j, k-i, failShape(texts[i])))
	if A.panicSite != "" {
		fail("P-panic", A.panicSite, "the text %q panicked out of EvalString: %s", grouped, A.panicMsg)
		return
	}
	if A.kinds[j] == "val" {
		fail("R1-reported", "grouped-swallowed", "the text %q contains the failing form %q and evaluated successfully to %s", grouped, texts[i], A.outs[j])
		return
	}
	if A.restMsg[j] != "" {
		fail("R2-at-rest", "grouped:"+restSite(A.restMsg[j]), "after the failed evaluation of the text %q: %s", grouped, A.restMsg[j])
		return
	}
	same := func(T *runOut, off int) (bool, string) {
		// A: texts[:j], grouped, battery ; T: off texts, battery
		if off > 0 && A.snapAfter[j] != T.snapAfter[off-1] {
			return false, fmt.Sprintf("globals %s vs %s", A.snapAfter[j], T.snapAfter[off-1])
		}
		if off == 0 && A.snapAfter[j] != T.startSnap[0] {
			return false, fmt.Sprintf("globals %s vs %s", A.snapAfter[j], T.startSnap[0])
		}
		for b := range battery {
			if A.outs[j+1+b] != T.outs[off+b] {
				return false, fmt.Sprintf("%q gives %s vs %s", battery[b], A.outs[j+1+b], T.outs[off+b])
			}
		}
		return true, ""
	}
	okC, whyC := same(C, j)
	okR, whyR := same(R, i)
	if okC || okR {
		return
	}
	site := "grouped"
	// does A differ from the run-time reading only by macros whose definition stands behind the failing form?
	if strings.Contains(strings.Join(texts[i+1:k+1], " "), "(defmac ") && strings.Contains(whyC+whyR, "macro:") || macroOnlyDiff(A, R, j, i) {
		site = "grouped|macro-defined-behind-the-failure"
	}
	fail("R4-twin", site, "the text %q fails in %q; afterwards the interpreter is neither as if nothing of the text had run (%s) nor as if only the forms in front of the failing one had (%s)", grouped, texts[i], whyC, whyR)
}

// macroOnlyDiff: the global snapshots differ only in "macro:" entries
func macroOnlyDiff(A, R *runOut, j, i int) bool {
	strip := func(s string) string {
		var keep []string
		for _, e := range strings.Split(s, ";") {
			if !strings.HasPrefix(e, "macro:") {
				keep = append(keep, e)
			}
		}
		return strings.Join(keep, ";")
	}
	rs := ""
	if i > 0 {
		rs = R.snapAfter[i-1]
	} else {
		rs = R.startSnap[0]
	}
	return A.snapAfter[j] != rs && strip(A.snapAfter[j]) == strip(rs)
}

// ---- C05, many failures in a row: whatever a failed evaluation leaves behind - a counter, a flag, a reservation -
// that the stacks and the globals do not show is amplified until later evaluations notice

func execRepeat(sc *vmScenario, res *kernel.Result) {
	if sc.FailForm == nil {
		return
	}
	fail := func(clause, site, f string, a ...interface{}) {
		res.Violate(sc.Prop, sc.Prop+"."+clause, site, fmt.Sprintf(f, a...))
	}
	texts, idx := formTexts(sc.Forms, -1)
	n0 := len(texts)
	var tsA []string
	var ixA []int
	tsA = append(tsA, texts...)
	ixA = append(ixA, idx...)
	for r := 0; r < sc.Repeat; r++ {
		tsA = append(tsA, sc.FailForm.Text)
		ixA = append(ixA, -1)
	}
	tsT := append([]string{}, texts...)
	ixT := append([]int{}, idx...)
	for _, b := range battery {
		tsA = append(tsA, b)
		ixA = append(ixA, -1)
		tsT = append(tsT, b)
		ixT = append(ixT, -1)
	}
	A := runProgram(sc, tsA, ixA, 0, "", false, res)
	T := runProgram(sc, tsT, ixT, 0, "", false, res)
	if A.budget || T.budget {
		res.Unbounded++
		return
	}
	if A.panicSite != "" {
		fail("P-panic", A.panicSite, "panicked out of EvalString: %s (repeat scenario, failing form %q)", A.panicMsg, sc.FailForm.Text)
		return
	}
	res.Fault("native-error-repeated")
	res.Sig(fmt.Sprintf("repeat|%s|%d", failShape(sc.FailForm.Text), min(sc.Repeat/100, 20)))
	// every repetition failed, and failed the same way
	first := ""
	for r := 0; r < sc.Repeat; r++ {
		j := n0 + r
		if A.kinds[j] == "val" {
			fail("R1-reported", "native-swallowed", "repetition %d of the failing form %q evaluated successfully to %s", r+1, sc.FailForm.Text, A.outs[j])
			return
		}
		if r == 0 {
			first = A.outs[j]
		} else if A.outs[j] != first {
			fail("R4-twin", "repeated-failure", "repetition %d of the failing form %q fails with %s, the first time it failed with %s: earlier failures changed how the interpreter behaves", r+1, sc.FailForm.Text, A.outs[j], first)
			return
		}
		if A.restMsg[j] != "" {
			fail("R2-at-rest", "native:"+restSite(A.restMsg[j]), "after repetition %d of the failed evaluation of %q: %s", r+1, sc.FailForm.Text, A.restMsg[j])
			return
		}
	}
	if !sc.FailForm.Eff && A.snapAfter[n0+sc.Repeat-1] != A.startSnap[n0] {
		fail("R3-crash-snapshot", "native", "%d failed evaluations of %q changed global definitions: before %s after %s", sc.Repeat, sc.FailForm.Text, A.startSnap[n0], A.snapAfter[n0+sc.Repeat-1])
		return
	}
	if sc.FailForm.Eff {
		return
	}
	for b := range battery {
		ja, jt := n0+sc.Repeat+b, n0+b
		if ja >= len(A.outs) || jt >= len(T.outs) {
			break
		}
		if A.outs[ja] != T.outs[jt] {
			fail("R4-twin", "battery|repeated", "after %d failed evaluations of %q the evaluation %q gives %s; an interpreter that never ran the failing form gives %s. program=%s",
				sc.Repeat, sc.FailForm.Text, battery[b], A.outs[ja], T.outs[jt], mustJSON(texts))
			return
		}
		if A.restMsg[ja] != "" && T.restMsg[jt] == "" {
			fail("R2-at-rest", "later:"+restSite(A.restMsg[ja]), "after %d failed evaluations of %q, evaluating %q leaves the interpreter not at rest: %s", sc.Repeat, sc.FailForm.Text, battery[b], A.restMsg[ja])
			return
		}
	}
}

// ---- C05: exhaustive enumeration of host-call fault points per program

func execFaults(sc *vmScenario, res *kernel.Result) {
	prop := sc.Prop
	fail := func(clause, site, f string, a ...interface{}) {
		if sc.PanicsOnly && clause != "P-panic" {
			return
		}
		res.Violate(prop, prop+"."+clause, site, fmt.Sprintf(f, a...))
	}
	nForms := len(sc.Forms)
	texts, idx := formTexts(sc.Forms, -1)
	all := append(append([]string{}, texts...), battery...)
	allIdx := append([]int{}, idx...)
	for range battery {
		allIdx = append(allIdx, -1)
	}

	// run B: fault-free, records a snapshot of the globals at every host call
	B := runProgram(sc, all, allIdx, 0, "", true, res)
	if B.budget {
		res.Unbounded++
		return
	}
	if B.panicSite != "" {
		fail("P-panic", B.panicSite, "fault-free run panicked out of EvalString: %s (program %s)", B.panicMsg, mustJSON(texts))
		return
	}
	// fault-free oracles: every evaluation leaves the interpreter at rest; natively failing forms are contained
	twins := map[int]*runOut{}
	twin := func(skip int) *runOut {
		if t, ok := twins[skip]; ok {
			return t
		}
		ts, ix := formTexts(sc.Forms, skip)
		ts = append(ts, battery...)
		for range battery {
			ix = append(ix, -1)
		}
		t := runProgram(sc, ts, ix, 0, "", false, res)
		twins[skip] = t
		return t
	}
	compareLater := func(A *runOut, failedText int, T *runOut, what string, k int, kind string) {
		// A evaluated texts [0..], T evaluated the same minus text #failedText
		defer func() {
			// and at the very end both have defined the same things
			if len(res.Violations) == 0 && len(A.outs) == len(T.outs)+1 && A.endSnap != T.endSnap {
				fail("R4-twin", "final-globals|"+kind, "%s: after the failure in form %d (%s, k=%d) and all later evaluations the globals are %s; an interpreter that never ran the failing form ends with %s. program=%s",
					what, failedText, kind, k, A.endSnap, T.endSnap, mustJSON(texts))
			}
		}()
		for j := failedText + 1; j < len(A.outs); j++ {
			tj := j - 1
			if tj >= len(T.outs) {
				break
			}
			if A.outs[j] != T.outs[tj] {
				site := "later-form"
				if j >= nForms {
					site = "battery"
				}
				fail("R4-twin", site+"|"+kind, "%s: after the failure in form %d (%s, k=%d) the evaluation %q gives %s; an interpreter that never ran the failing form gives %s. program=%s",
					what, failedText, kind, k, all[j], A.outs[j], T.outs[tj], mustJSON(texts))
				return
			}
			if A.restMsg[j] != "" && T.restMsg[tj] == "" {
				fail("R2-at-rest", "later:"+restSite(A.restMsg[j]), "%s: after the failure in form %d (%s, k=%d), evaluating %q leaves the interpreter not at rest: %s. program=%s",
					what, failedText, kind, k, all[j], A.restMsg[j], mustJSON(texts))
				return
			}
		}
	}
	for i := 0; i < nForms; i++ {
		if B.kinds[i] == "val" {
			res.Probe("form-ok")
			if B.restMsg[i] != "" {
				fail("S-rest", restSite(B.restMsg[i]), "after the successful evaluation of %q: %s", all[i], B.restMsg[i])
				return
			}
			continue
		}
		// native failure
		if !sc.Forms[i].Fail {
			res.Probe("unplanned-native-error")
			if dbgNative != nil {
				dbgNative(all[i], B.outs[i])
			}
		}
		res.Fault("native-error")
		res.Sig("native|" + failShape(all[i]))
		if B.restMsg[i] != "" {
			fail("R2-at-rest", "native:"+restSite(B.restMsg[i]), "after the failed evaluation of %q (%s): %s", all[i], B.outs[i], B.restMsg[i])
			return
		}
		if !sc.Forms[i].Fail {
			// a text of several forms (declare and use) that failed on its own at some point: what ran before that
			// point legitimately stays; only the rest clause applies
			continue
		}
		if B.snapAfter[i] != B.startSnap[i] && !sc.Forms[i].Eff {
			// a natively failing form of ours is effect-free by construction
			fail("R3-crash-snapshot", "native", "the failed evaluation of %q changed global definitions: before %s after %s", all[i], B.startSnap[i], B.snapAfter[i])
			return
		}
		if sc.OnlyK == 0 && !sc.Forms[i].Eff {
			T := twin(i)
			if T.budget {
				res.Unbounded++
				return
			}
			compareLater(B, i, T, "native failure", 0, "native")
			if len(res.Violations) > 0 {
				return
			}
		}
	}
	// the failing form as one of several forms of a single text: the text fails, the forms behind the failing one
	// must not have happened, and what stood before the text is intact. What "ran before the failure" inside the
	// text depends on when the form fails: at compile time nothing of the text has run, at run time the forms in
	// front of it have; either reading is accepted, anything else is not.
	if sc.OnlyK == 0 {
		for i := 0; i < nForms; i++ {
			if !sc.Forms[i].Fail || sc.Forms[i].Eff || B.kinds[i] == "val" {
				continue
			}
			j, k := i, i
			if i > 0 && sc.Forms[i-1].Text != "" && !sc.Forms[i-1].Fail {
				j = i - 1
			}
			for k+1 < nForms && k < i+2 && !sc.Forms[k+1].Fail {
				k++
			}
			if j == i && k == i {
				continue
			}
			checkGroupedFailure(sc, res, fail, texts, i, j, k)
			if len(res.Violations) > 0 {
				return
			}
			break // one per scenario
		}
	}
	for i, f := range sc.Forms {
		if f.Fail && B.kinds[i] == "val" {
			fail("R1-reported", "native-swallowed", "the malformed/failing form %q evaluated successfully to %s: its error was swallowed", f.Text, B.outs[i])
			return
		}
	}

	// fault enumeration: every host call k, every kind
	K := 0
	for c := range B.h.formAt {
		if B.h.formAt[c] >= 0 && c > K {
			K = c
		}
	}
	kinds := sc.Kinds
	if len(kinds) == 0 {
		kinds = []string{"err", "panic"}
	}
	var ks []int
	for k := 1; k <= K; k++ {
		if B.h.formAt[k] < 0 {
			continue
		}
		if sc.OnlyK != 0 && k != sc.OnlyK {
			continue
		}
		if K > 40 && k > 30 && (k%(K/10+1)) != 0 {
			continue // very long call sequences: all of the first 30 and a regular sample beyond
		}
		ks = append(ks, k)
	}
	for _, k := range ks {
		fi := B.h.formAt[k]
		for _, kind := range kinds {
			A := runProgram(sc, all, allIdx, k, kind, false, res)
			if A.budget {
				res.Unbounded++
				continue
			}
			res.Fault("host-" + kind)
			route := routeOf(sc.Forms[fi].Text)
			res.Sig(fmt.Sprintf("fault|%s|%s|%s", kind, B.h.depthAt[k], route))
			if strings.Count(route, ">") >= 2 {
				res.Probe("fault-under-3-reentries")
			}
			if A.panicSite != "" {
				fail("P-panic", A.panicSite, "a %s at host call %d panicked out of EvalString: %s. program=%s", kind, k, A.panicMsg, mustJSON(texts))
				return
			}
			if A.failedAt != fi {
				fail("R1-reported", "not-fired", "host call %d was expected in form %d but fired in %d", k, fi, A.failedAt)
				return
			}
			// R1: the evaluation in which the fault fired returns an error
			if A.kinds[fi] != "err" {
				fail("R1-reported", "swallowed|"+kind, "host call %d (%s) failed inside form %q but the evaluation returned %s", k, kind, all[fi], A.outs[fi])
				return
			}
			// R2: at rest after the failure
			if A.restMsg[fi] != "" {
				fail("R2-at-rest", "fault:"+restSite(A.restMsg[fi]), "after host call %d (%s) failed inside form %q: %s. program=%s", k, kind, all[fi], A.restMsg[fi], mustJSON(texts))
				return
			}
			// R3: globals after the failure == globals at the instant of the failure (twin run B)
			if A.snapAfter[fi] != B.h.snapAt[k] {
				fail("R3-crash-snapshot", "fault|"+kind, "after host call %d (%s) failed inside form %q the global definitions are %s; at the instant of the call they were %s. program=%s",
					k, kind, all[fi], A.snapAfter[fi], B.h.snapAt[k], mustJSON(texts))
				return
			}
			// R4: later evaluations as in an interpreter that ran only what ran before the failure
			eligible := !sc.Forms[fi].Eff && B.h.snapAt[k] == B.startSnap[fi]
			if !eligible {
				res.Probe("r4-skipped-effectful")
				continue
			}
			T := twin(fi)
			if T.budget {
				res.Unbounded++
				continue
			}
			compareLater(A, fi, T, "injected "+kind, k, kind)
			if len(res.Violations) > 0 {
				return
			}
		}
	}
	res.Tracef("K=%d forms=%d", K, nForms)
}

func anyFail(fs []vmForm) bool {
	for _, f := range fs {
		if f.Fail {
			return true
		}
	}
	return false
}

// routeOf: the chain of VM re-entry routes syntactically present in a form (coarse signature)
func routeOf(t string) string {
	var r []string
	for _, k := range []struct{ pat, name string }{
		{"(apply ", "apply"}, {"(map ", "map"}, {"(eval ", "eval"}, {"(force ", "force"}, {"(hb ", "builder"}, {"(hm ", "hostmacro"},
		{"(for ", "for"}, {"(let", "let"}, {"(fn ", "fn"}, {"{", "infix"}, {"(m0 ", "macro"}, {"(m1 ", "macro"}, {"(cond ", "cond"},
		{"(newScope ", "newScope"}, {"(and ", "and"}, {"(or ", "or"}, {"(hash ", "hash"}, {"(f0 ", "call"}, {"(f1 ", "call"}, {"(f2 ", "call"},
	} {
		if strings.Contains(t, k.pat) {
			r = append(r, k.name)
		}
	}
	if len(r) > 4 {
		r = r[:4]
	}
	return strings.Join(r, ">")
}

func failShape(t string) string {
	for _, c := range failingCores {
		if strings.Contains(t, c) {
			return c + "|" + routeOf(t)
		}
	}
	return "other|" + routeOf(t)
}

// ---- C04: grouping, empty input

func execGrouping(sc *vmScenario, res *kernel.Result) {
	fail := func(clause, site, f string, a ...interface{}) {
		res.Violate("C04", "C04."+clause, site, fmt.Sprintf(f, a...))
	}
	texts, _ := formTexts(sc.Forms, -1)
	// one at a time
	one := runProgram(sc, texts, nil, 0, "", false, res)
	if one.budget {
		res.Unbounded++
		return
	}
	if one.panicSite != "" {
		fail("P-panic", one.panicSite, "evaluation panicked: %s (program %s)", one.panicMsg, mustJSON(texts))
		return
	}
	for i := range texts {
		if one.kinds[i] != "val" {
			res.Probe("grouping-skipped-failing-program")
			return // grouping is only defined for programs that succeed
		}
		if one.restMsg[i] != "" {
			fail("S-rest", restSite(one.restMsg[i]), "after the successful evaluation of %q: %s", texts[i], one.restMsg[i])
			return
		}
	}
	groupings := [][]int{{len(texts)}}
	if len(sc.Groups) > 0 {
		groupings = append(groupings, sc.Groups)
	}
	for gi, groups := range groupings {
		var gts []string
		p := 0
		for _, sz := range groups {
			if p >= len(texts) {
				break
			}
			e := p + sz
			if e > len(texts) {
				e = len(texts)
			}
			gts = append(gts, strings.Join(texts[p:e], "\n"))
			p = e
		}
		if p < len(texts) {
			gts = append(gts, strings.Join(texts[p:], "\n"))
		}
		// interleave empty inputs
		loadedIdx := -1
		var withEmpty []string
		emptyIdx := map[int]bool{}
		for i, t := range gts {
			for j, at := range sc.EmptyAt {
				if at == i && len(sc.Empties) > 0 {
					emptyIdx[len(withEmpty)] = true
					withEmpty = append(withEmpty, sc.Empties[j%len(sc.Empties)])
				}
			}
			withEmpty = append(withEmpty, t)
		}
		if len(sc.EmptyAt) > 0 && len(sc.Empties) > 0 {
			emptyIdx[len(withEmpty)] = true
			withEmpty = append(withEmpty, sc.Empties[0])
			// a text that the host loaded but did not run yet, then an empty evaluation: the loaded text runs, the
			// value of the empty input is nil all the same
			loadedIdx = len(withEmpty)
			withEmpty = append(withEmpty, loadOnlyMark+"(+ 40 2)")
			emptyIdx[len(withEmpty)] = true
			withEmpty = append(withEmpty, sc.Empties[len(sc.Empties)-1])
		}
		G := runProgram(sc, withEmpty, nil, 0, "", false, res)
		if G.budget {
			res.Unbounded++
			return
		}
		res.Sig(fmt.Sprintf("group|%d|%v|%s", gi, groups, declShape(strings.Join(texts, " "))))
		if G.panicSite != "" {
			fail("P-panic", G.panicSite, "grouped evaluation panicked: %s (texts %s)", G.panicMsg, mustJSON(withEmpty))
			return
		}
		lastVal := ""
		for i := range withEmpty {
			if emptyIdx[i] {
				res.Probe("empty-input")
				if G.kinds[i] != "val" || (G.outs[i] != "nil" && G.outs[i] != "()") {
					fail("E-empty", "empty-input", "evaluating the empty input %q after %d evaluations returned %s instead of nil", withEmpty[i], i, G.outs[i])
					return
				}
				continue
			}
			if i == loadedIdx {
				continue
			}
			if G.kinds[i] != "val" {
				fail("G-grouping", "group-fails", "forms that succeed one at a time fail when evaluated together: %q gives %s", withEmpty[i], G.outs[i])
				return
			}
			if G.restMsg[i] != "" {
				fail("S-rest", restSite(G.restMsg[i]), "after the successful evaluation of %q: %s", withEmpty[i], G.restMsg[i])
				return
			}
			lastVal = G.outs[i]
		}
		if lastVal != one.outs[len(one.outs)-1] {
			fail("G-grouping", "value", "grouping %v: final value %s, one at a time %s. program=%s", groups, lastVal, one.outs[len(one.outs)-1], mustJSON(texts))
			return
		}
		if runtimeTrace(G.h.trace) != runtimeTrace(one.h.trace) {
			fail("G-grouping", "trace", "grouping %v: host-call trace %v, one at a time %v. program=%s", groups, G.h.trace, one.h.trace, mustJSON(texts))
			return
		}
		if G.endSnap != one.endSnap {
			fail("G-grouping", "globals", "grouping %v: globals %s, one at a time %s. program=%s", groups, G.endSnap, one.endSnap, mustJSON(texts))
			return
		}
	}
}

// runtimeTrace: host macros are called when a text is compiled, before any of its forms has run,
// so their position relative to run-time calls legitimately depends on grouping; compare the run-time calls only.
func runtimeTrace(tr []string) string {
	var r []string
	for _, t := range tr {
		if t != "hm" {
			r = append(r, t)
		}
	}
	return strings.Join(r, ",")
}

func declShape(t string) string {
	var r []string
	for _, k := range []string{"(struct ", "(var ", "(func ", "(interface ", "(package ", "(range ", "(method ", "(defmac ", "(macexpand ", "(defmap ", "{for ", "(defn ", "{"} {
		if strings.Contains(t, k) {
			r = append(r, strings.Trim(k, "( "))
		}
	}
	return strings.Join(r, ",")
}

// ---- C04: no growth

func execGrowth(sc *vmScenario, res *kernel.Result) {
	fail := func(clause, site, f string, a ...interface{}) {
		res.Violate("C04", "C04."+clause, site, fmt.Sprintf(f, a...))
	}
	texts, _ := formTexts(sc.Forms, -1)
	env, root := newVM(sc.Env)
	defer closeQuietly(root)
	h := &host{snapAt: map[int]string{}, formAt: map[int]int{}, depthAt: map[int]string{}}
	installHost(env, h)
	var first depthVec
	firstMain, firstGlobals := 0, 0
	// (the second run of a program may legitimately compile to a few more instructions than the first: redefinitions)
	const secondMainSlack = 8
	rep := sc.Repeat
	if rep < 4 {
		rep = 4
	}
	for r := 0; r < rep; r++ {
		for _, t := range texts {
			res.Execs++
			o := zy.Eval(env, t+" ", sc.Budget)
			if o.Budget {
				res.Unbounded++
				return
			}
			if o.Panicked {
				fail("P-panic", o.Site, "evaluation of %q panicked: %s", t, o.PanicMsg)
				return
			}
		}
		if sc.HostApply {
			// between evaluations the host calls every script function it can find through env.Apply
			for _, fname := range []string{"f0", "f1", "f2"} {
				v, ok := env.VerifGlobal(fname)
				fn, isFn := v.(*zygo.SexpFunction)
				if !ok || !isFn {
					continue
				}
				for nargs := 1; nargs <= 2; nargs++ {
					args := []zygo.Sexp{&zygo.SexpInt{Val: 1}, &zygo.SexpInt{Val: 2}}[:nargs]
					res.Execs++
					kernel.SetBudget(sc.Budget)
					o := zy.Guard(func() (zygo.Sexp, error) { return env.Apply(fn, args) })
					kernel.SetBudget(-1)
					if o.Budget {
						res.Unbounded++
						return
					}
					if o.Panicked {
						fail("P-panic", o.Site, "env.Apply(%s, %d args) panicked: %s", fname, nargs, o.PanicMsg)
						return
					}
					res.Probe("host-apply")
					if !o.OK() {
						env.Clear()
					}
				}
			}
			// the interpreter must still evaluate normally afterwards
			o := zy.Eval(env, "(+ 40 2) ", sc.Budget)
			if iv, isInt := o.Val.(*zygo.SexpInt); !o.OK() || !isInt || iv.Val != 42 {
				fail("S-rest", "after-host-apply", "after the host called script functions through env.Apply, (+ 40 2) evaluates to %s", o)
				return
			}
		}
		dv, di := depthsOf(env)
		// besides the stacks: the code the interpreter keeps for its main function and the number of names bound
		// in the global scope (a program run again redefines its own names, it does not add any)
		nGlobals := len(env.VerifGlobalNames())
		if r == 0 {
			first = dv
			continue
		}
		if r == 1 {
			// the second run is the reference for code size and names: a first run may fail half-way on a name that
			// a later form of the same program defines, so that only from the second run on the whole program runs
			firstMain, firstGlobals = di.MainLen, nGlobals
		}
		if dv != first {
			fail("N-no-growth", "stacks", "after %d repetitions of %s the stacks are %+v, after the first %+v: an idle interpreter grows with the evaluations it has served", r+1, mustJSON(texts), dv, first)
			return
		}
		if r >= 2 && di.MainLen > firstMain+secondMainSlack {
			fail("N-no-growth", "main-code", "after %d repetitions of %s the interpreter holds %d instructions for its main function, after the second %d: the code of every evaluation ever served is kept", r+1, mustJSON(texts), di.MainLen, firstMain)
			return
		}
		if r >= 2 && nGlobals > firstGlobals {
			fail("N-no-growth", "global-names", "after %d repetitions of %s the global scope binds %d names, after the second %d: every repetition adds names", r+1, mustJSON(texts), nGlobals, firstGlobals)
			return
		}
	}
	res.Sig(fmt.Sprintf("growth|%s|%d", declShape(strings.Join(texts, " ")), min(rep, 5)))
}

// ---- generation

func genVMFaults(prop string) func(*kernel.RNG, string, int) interface{} {
	return func(r *kernel.RNG, tier string, i int) interface{} {
		sc := &vmScenario{Prop: prop, Mode: "faults", Env: r.Pick([]string{"std", "std", "std", "dup", "clone"})}
		sc.Budget = int64(r.PickInt([]int{5000, 50000, 200000}))
		sc.Forms, sc.Files = genProgramFiles(r, r.Range(2, 9), false, r.Chance(0.4))
		return sc
	}
}

func genVMRepeat(r *kernel.RNG, tier string, i int) interface{} {
	sc := &vmScenario{Prop: "C05", Mode: "repeat", Env: r.Pick([]string{"std", "std", "dup"})}
	sc.Budget = 200000
	forms, files := genProgramFiles(r, r.Range(2, 7), false, true)
	sc.Files = files
	for k, f := range forms {
		if f.Fail {
			ff := f
			sc.FailForm = &ff
			sc.Forms = forms[:k]
			break
		}
	}
	if sc.FailForm == nil {
		sc.Forms = forms
		g := newProgGen(r)
		sc.FailForm = &vmForm{Text: g.failingForm(), Fail: true}
	}
	levels := []int{3, 30, 300, 3000, 12000}
	sc.Repeat = r.PickInt(levels)
	if i%2 == 0 {
		// systematically: every natively failing core at every amplification level, at a seeded nesting
		k := i / 2
		g := newProgGen(r)
		all := append(append(append([]string{}, failingCores...), failingParseCores...), failingFileCores...)
		core := all[k%len(all)]
		if k%len(all) < len(failingCores) {
			core = g.nest(core, r.Intn(3))
		} else if k%len(all) >= len(failingCores)+len(failingParseCores) {
			if sc.Files == nil {
				sc.Files = map[string]string{}
			}
			sc.Files["bad9.zy"] = "(def bg9 1)\n(def bx9 (+ 1"
		}
		sc.FailForm = &vmForm{Text: core, Fail: true}
		sc.Repeat = levels[(k/len(all))%len(levels)]
	}
	if tier == "thorough" && r.Chance(0.05) {
		sc.Repeat = 40000
	}
	return sc
}

func genVMGrouping(r *kernel.RNG, tier string, i int) interface{} {
	sc := &vmScenario{Prop: "C04", Mode: "grouping", Env: r.Pick([]string{"std", "std", "dup"})}
	sc.Budget = 200000
	sc.Forms, sc.Files = genProgramFiles(r, r.Range(2, 10), true, true)
	n := len(sc.Forms)
	for left := n; left > 0; {
		k := r.Range(1, 3)
		if k > left {
			k = left
		}
		sc.Groups = append(sc.Groups, k)
		left -= k
	}
	if r.Chance(0.6) {
		sc.Empties = []string{r.Pick([]string{"", " ", "\n", "// c\n", "/* c */ ", "\t"}), r.Pick([]string{"", "  \n", "// x\n"})}
		for j := 0; j < r.Range(1, 3); j++ {
			sc.EmptyAt = append(sc.EmptyAt, r.Intn(len(sc.Groups)+1))
		}
	}
	return sc
}

func genVMGrowth(r *kernel.RNG, tier string, i int) interface{} {
	sc := &vmScenario{Prop: "C04", Mode: "growth", Env: r.Pick([]string{"std", "std", "dup"})}
	sc.Budget = 200000
	sc.Forms, sc.Files = genProgramFiles(r, r.Range(1, 5), r.Chance(0.7), true)
	sc.HostApply = r.Chance(0.3)
	sc.Repeat = r.Range(2, 60)
	if r.Chance(0.6) {
		sc.Repeat = r.Range(2, 6)
	}
	return sc
}

func shrinkVM(body json.RawMessage) []json.RawMessage {
	var sc vmScenario
	if json.Unmarshal(body, &sc) != nil {
		return nil
	}
	var out []json.RawMessage
	emit := func(s vmScenario) {
		b, _ := json.Marshal(s)
		out = append(out, b)
	}
	n := len(sc.Forms)
	for _, chunk := range []int{n / 2, 1} {
		if chunk < 1 {
			continue
		}
		for i := 0; i+chunk <= n; i += chunk {
			s := sc
			s.Forms = append(append([]vmForm{}, sc.Forms[:i]...), sc.Forms[i+chunk:]...)
			s.OnlyK = 0
			s.Groups = nil
			emit(s)
		}
	}
	if len(sc.Kinds) != 1 && sc.Mode == "faults" {
		for _, k := range []string{"err", "panic"} {
			s := sc
			s.Kinds = []string{k}
			emit(s)
		}
	}
	if sc.Env != "std" {
		s := sc
		s.Env = "std"
		emit(s)
	}
	if sc.Repeat > 2 {
		s := sc
		s.Repeat = 2
		emit(s)
		if sc.Repeat > 4 {
			s2 := sc
			s2.Repeat = sc.Repeat / 2
			emit(s2)
		}
	}
	if sc.FailForm != nil {
		for _, t := range shrinkText(sc.FailForm.Text, 8) {
			if t == "" {
				continue
			}
			s := sc
			ff := *sc.FailForm
			ff.Text = t
			s.FailForm = &ff
			emit(s)
		}
	}
	if len(sc.EmptyAt) > 0 {
		s := sc
		s.EmptyAt, s.Empties = nil, nil
		emit(s)
	}
	if len(sc.Groups) > 0 {
		s := sc
		s.Groups = nil
		emit(s)
	}
	// simplify sub-forms: replace a balanced sub-expression by a literal
	for i, f := range sc.Forms {
		if f.Fail {
			continue // the failing core must stay what it is
		}
		for _, t := range simplifyForm(f.Text, 12) {
			s := sc
			s.Forms = append([]vmForm{}, sc.Forms...)
			s.Forms[i].Text = t
			s.OnlyK = 0
			emit(s)
		}
	}
	return out
}

// simplifyForm proposes texts in which one parenthesised sub-expression is replaced by "1".
func simplifyForm(t string, max int) []string {
	var out []string
	depth := 0
	var starts []int
	for i, c := range t {
		switch c {
		case '(', '[', '{':
			starts = append(starts, i)
			depth++
		case ')', ']', '}':
			if len(starts) == 0 {
				return out
			}
			s := starts[len(starts)-1]
			starts = starts[:len(starts)-1]
			depth--
			if depth >= 1 && t[s] == '(' && i-s > 3 && len(out) < max {
				out = append(out, t[:s]+"1"+t[i+1:])
			}
		}
	}
	// larger sub-expressions first
	for i := 0; i < len(out); i++ {
		for j := i + 1; j < len(out); j++ {
			if len(out[j]) < len(out[i]) {
				out[i], out[j] = out[j], out[i]
			}
		}
	}
	return out
}

func init() {
	kernel.RegisterWarmup(func() { captureRegistry(); baseline() })
	cnt := func(q, t int) func(string) int {
		return func(tier string) int {
			if tier == "thorough" {
				return t
			}
			return q
		}
	}
	comps := map[string][]string{
		"real": {"lexer", "parser", "generator", "VM (Run, EvalCallExpression, CallUserFunction, Apply, lazy Force, EvalFunction)", "builtins", "macro expansion in a Duplicate"},
		"stub": {"host functions hf (function), hb (builder), hm (macro) registered through the public API, failing on demand"},
	}
	kernel.Register(&kernel.Plan{
		Property: "C05",
		Level:    "fault_enumeration",
		Rule: "seeded programs (2-9 top-level forms over def/set/let/letseq/newScope/begin/cond/and/or/for with plain and labelled break/continue/fn/defn with lazy parameters/recursion/apply/map/eval/macros/infix/hashes/arrays, " +
			"host-call probes at every nesting level, natively failing forms nested at depth). For each program: one fault-free twin run records the global definitions at every host call; then for EVERY host call k and EVERY kind in {returned error, Go panic} " +
			"the program is re-run in a fresh interpreter with the fault at call k (exhaustive per program; a regular sample beyond 30 calls). Oracles: error reported, interpreter at rest, globals equal the twin's snapshot at the instant of the fault, " +
			"later forms and a fixed battery behave as in an interpreter that never ran the failing form. distinct_nontrivial counts distinct (fault kind, VM call/scope/loop depth at the fault, re-entry routes of the form) and (native failure shape) signatures.",
		Components: comps,
		Assume: []string{
			"one form per EvalString in the fault enumeration, so 'the part that ran before the failure' is well defined; the grouped-failure clause puts the failing form into a text of several forms and accepts both honest readings (nothing of the text ran / the forms in front ran)",
			"part 'repeat': one failing form evaluated 3..12000 (thorough: up to 40000) times, then the battery against a twin that never ran it",
			"the twin comparison is applied only when the failing form had no global effect before the failing call (static hint from the generator, confirmed dynamically by snapshot equality)",
			"generated-symbol digits, line numbers, addresses and stack traces are masked before comparing (the failed form legitimately consumed symbol numbers)",
			"a step-budget abort is never used as a fault and no oracle is evaluated after it",
		},
		Parts: []*kernel.Part{
			{Name: "faults", Count: cnt(1200, 40000), Generate: genVMFaults("C05"), Execute: execVM, Shrink: shrinkVM},
			{Name: "repeat", Count: cnt(400, 12000), Generate: genVMRepeat, Execute: execVM, Shrink: shrinkVM},
		},
	})
	kernel.Register(&kernel.Plan{
		Property: "C04",
		Level:    "exploration",
		Rule: "seeded fault-free programs over the full surface language including declarations (struct, func, method, interface, var, package, defmap, macros, range, go-style for-range, infix blocks) evaluated against one long-lived interpreter: " +
			"at rest after every successful evaluation (four stacks, current function, pc); all-in-one vs seeded grouping vs one-at-a-time give the same final value, host-call trace and globals; empty inputs at seeded points return nil; " +
			"a program repeated 3-60 times leaves the same stack depths, the same amount of main-function code and the same number of global names after every repetition. distinct_nontrivial counts distinct (mode, grouping, declaration kinds present) signatures.",
		Components: comps,
		Assume: []string{
			"macros are expanded when a text is compiled, so generated macro bodies are closed templates over their arguments",
			"growth is measured on the four stacks, the size of the main function's code and the number of global names; the symbol table grows with every new name a program interns and is not measured",
		},
		Parts: []*kernel.Part{
			{Name: "grouping", Count: cnt(2500, 60000), Generate: genVMGrouping, Execute: execVM, Shrink: shrinkVM},
			{Name: "growth", Count: cnt(1200, 30000), Generate: genVMGrowth, Execute: execVM, Shrink: shrinkVM},
		},
	})
}
