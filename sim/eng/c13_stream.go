package eng

import (
	"bufio"
	"bytes"
	"encoding/json"
	"fmt"
	"io"
	"strings"
	"testing/iotest"
	"unicode/utf8"

	"verifsim/kernel"
	"verifsim/zy"

	"github.com/glycerine/zygomys/v9/zygo"
)

// Engine `stream`, C13: the simulator owns the transport that carries script
// text to the long-lived, pausable parser. A pause point is a crash point for
// lexer/parser state.

var lexStateNames = []string{"Normal", "CommentLine", "StrLit", "StrEscaped", "Unquote", "BacktickString", "FreshAssignOrColon",
	"FirstFwdSlash", "CommentBlock", "CommentBlockAsterisk", "BuiltinOperator", "RuneLit", "RuneEscaped"}

func lexStateName(i int) string {
	if i >= 0 && i < len(lexStateNames) {
		return lexStateNames[i]
	}
	return fmt.Sprintf("state%d", i)
}

// ---- stream implementations (swarm)

type runeSliceScanner struct {
	rs  []rune
	pos int
}

func (s *runeSliceScanner) ReadRune() (rune, int, error) {
	if s.pos >= len(s.rs) {
		return 0, 0, io.EOF
	}
	r := s.rs[s.pos]
	s.pos++
	return r, utf8.RuneLen(r), nil
}
func (s *runeSliceScanner) UnreadRune() error {
	if s.pos == 0 {
		return fmt.Errorf("nothing to unread")
	}
	s.pos--
	return nil
}

func mkStream(kind, text string) io.RuneScanner {
	switch kind {
	case "strings":
		return strings.NewReader(text)
	case "bufio1":
		return bufio.NewReader(iotest.OneByteReader(strings.NewReader(text)))
	case "custom":
		return &runeSliceScanner{rs: []rune(text)}
	}
	return bytes.NewBuffer([]byte(text))
}

var streamKinds = []string{"buf", "strings", "bufio1", "custom"}

// ---- scenario

type histOp struct {
	Op   string `json:"op"` // new cont queue eval read repl abandon stop
	Text string `json:"text,omitempty"`
	Kind string `json:"kind,omitempty"`
}

type streamScenario struct {
	Mode    string   `json:"mode"` // A B H L M
	Text    string   `json:"text"`
	Src     string   `json:"src,omitempty"` // corpus | generated
	Cuts    []int    `json:"cuts,omitempty"`
	AllCuts int      `json:"all_cuts,omitempty"` // 1: every single cut, 2: every pair too
	Fine    bool     `json:"fine,omitempty"`     // also: rune-by-rune, every 2nd/3rd rune, and deliveries with empty chunks
	Kinds   []string `json:"kinds,omitempty"`
	History []histOp `json:"history,omitempty"`
}

type parseRes struct {
	Kind   string // none more hard panic
	Exprs  string
	Msg    string
	Site   string
	NForms int
}

func (p parseRes) String() string {
	switch p.Kind {
	case "panic":
		return "panic@" + p.Site + ": " + p.Msg
	case "hard":
		return "error(" + p.Msg + ")"
	}
	return p.Kind + " " + p.Exprs
}

func printExprs(env *zygo.Zlisp, xs []zygo.Sexp, filter bool) (string, int) {
	if filter {
		xs = env.FilterArray(xs, zygo.RemoveCommentsFilter)
		xs = env.FilterArray(xs, zygo.RemoveEndsFilter)
	}
	var sb strings.Builder
	for _, x := range xs {
		sb.WriteString(zy.Show(x))
		sb.WriteString(" ¦ ")
	}
	return sb.String(), len(xs)
}

func classify(env *zygo.Zlisp, xs []zygo.Sexp, err error, filter bool) parseRes {
	pr := parseRes{}
	pr.Exprs, pr.NForms = printExprs(env, xs, filter)
	switch {
	case err == nil:
		pr.Kind = "none"
	case err == zygo.ErrMoreInputNeeded:
		pr.Kind = "more"
	default:
		pr.Kind = "hard"
		pr.Msg = zy.NormErr(err.Error())
	}
	return pr
}

// parseWhole: the reference delivery — the whole text, one stream, fresh interpreter.
func parseWhole(text string, filter bool) parseRes {
	env := zygo.NewZlisp()
	var pr parseRes
	o := zy.Guard(func() (zygo.Sexp, error) {
		p := env.VerifParser()
		p.ResetAddNewInput(bytes.NewBuffer([]byte(text)))
		xs, err := p.ParseTokens()
		pr = classify(env, xs, err, filter)
		env.Close()
		return nil, nil
	})
	if o.Panicked {
		return parseRes{Kind: "panic", Site: o.Site, Msg: o.PanicMsg}
	}
	return pr
}

func splitAt(text string, cuts []int) []string {
	rs := []rune(text)
	var out []string
	prev := 0
	for _, c := range cuts {
		if c < prev {
			c = prev
		}
		if c > len(rs) {
			c = len(rs)
		}
		out = append(out, string(rs[prev:c]))
		prev = c
	}
	out = append(out, string(rs[prev:]))
	return out
}

func kindAt(kinds []string, i int) string {
	if len(kinds) == 0 {
		return "buf"
	}
	return kinds[i%len(kinds)]
}

// deliverQueued: all pieces queued behind each other, then one parse (C13.A).
func deliverQueued(env *zygo.Zlisp, pieces []string, kinds []string) (pr parseRes, states []string) {
	o := zy.Guard(func() (zygo.Sexp, error) {
		p := env.VerifParser()
		p.ResetAddNewInput(mkStream(kindAt(kinds, 0), pieces[0]))
		for i := 1; i < len(pieces); i++ {
			p.NewInput(mkStream(kindAt(kinds, i), pieces[i]))
		}
		xs, err := p.ParseTokens()
		pr = classify(env, xs, err, false)
		return nil, nil
	})
	if o.Panicked {
		return parseRes{Kind: "panic", Site: o.Site, Msg: o.PanicMsg}, nil
	}
	return pr, nil
}

// deliverPaused: interactive continuation (C13.B). Returns the final result,
// whether every cut was a pause, and the lexer state name at every cut.
func deliverPaused(env *zygo.Zlisp, pieces []string, kinds []string) (pr parseRes, allPaused bool, states []string) {
	allPaused = true
	o := zy.Guard(func() (zygo.Sexp, error) {
		p := env.VerifParser()
		p.ResetAddNewInput(mkStream(kindAt(kinds, 0), pieces[0]))
		for i := 0; ; i++ {
			xs, err := p.ParseTokens()
			pr = classify(env, xs, err, false)
			if i == len(pieces)-1 {
				return nil, nil
			}
			ls := p.VerifLexState()
			states = append(states, fmt.Sprintf("%s/d%d", lexStateName(ls.State), min(int(ls.Recur), 4)))
			if pr.Kind != "more" {
				allPaused = false
				return nil, nil
			}
			p.NewInput(mkStream(kindAt(kinds, i+1), pieces[i+1]))
		}
	})
	if o.Panicked {
		return parseRes{Kind: "panic", Site: o.Site, Msg: o.PanicMsg}, allPaused, states
	}
	return pr, allPaused, states
}

func sameParse(a, b parseRes) bool {
	if a.Kind != b.Kind {
		return false
	}
	if a.Kind == "hard" || a.Kind == "panic" {
		return true
	}
	return a.Exprs == b.Exprs
}

func runHistory(env *zygo.Zlisp, hist []histOp, res *kernel.Result) {
	p := env.VerifParser()
	for _, h := range hist {
		res.Execs++
		o := zy.Guard(func() (zygo.Sexp, error) {
			switch h.Op {
			case "new":
				p.ResetAddNewInput(mkStream(h.Kind, h.Text))
				p.ParseTokens()
			case "cont":
				p.NewInput(mkStream(h.Kind, h.Text))
				p.ParseTokens()
			case "queue":
				p.NewInput(mkStream(h.Kind, h.Text))
			case "eval":
				kernel.SetBudget(20000)
				env.EvalString(h.Text)
				kernel.SetBudget(-1)
			case "read":
				kernel.SetBudget(20000)
				env.EvalString(fmt.Sprintf("(read %q) ", h.Text))
				kernel.SetBudget(-1)
			case "repl":
				env.VerifReplRead(bufio.NewReader(strings.NewReader(h.Text)))
			case "abandon":
				env.Clear()
			case "stop":
				p.Stop()
			}
			return nil, nil
		})
		if o.Panicked {
			res.Probe("history-op-panicked") // C01's business, not C13's
		}
		ls := p.VerifLexState()
		if ls.Suspended {
			res.Probe("history-left-parser-suspended")
		}
		if ls.BufLen > 0 {
			res.Probe("history-left-partial-atom")
		}
		if ls.QueuedStreams > 0 {
			res.Probe("history-left-queued-stream")
		}
	}
}

func execStream(body json.RawMessage) *kernel.Result {
	var sc streamScenario
	res := &kernel.Result{}
	if err := json.Unmarshal(body, &sc); err != nil {
		res.Violate("", "harness", "bad-scenario", err.Error())
		return res
	}
	fail := func(clause, site, f string, a ...interface{}) {
		res.Violate("C13", clause, site, fmt.Sprintf(f, a...))
	}
	nr := utf8.RuneCountInString(sc.Text)

	switch sc.Mode {
	case "A", "B":
		whole := parseWhole(sc.Text, false)
		res.Execs++
		if whole.Kind == "panic" {
			res.Probe("whole-text-panics") // C01's business
			return res
		}
		one := func(cuts []int) bool {
			pieces := splitAt(sc.Text, cuts)
			env := zygo.NewZlisp()
			defer closeQuietly(env)
			res.Execs++
			// lexer state at the first cut, for the signature (observed through a paused delivery of the prefix)
			if sc.Mode == "A" {
				got, _ := deliverQueued(env, pieces, sc.Kinds)
				res.Sig(fmt.Sprintf("A|%d|%s|%s", len(cuts), kindAt(sc.Kinds, 0), cutClass(sc.Text, cuts)))
				if !sameParse(whole, got) {
					fail("C13.A-queued", "cut:"+cutClass(sc.Text, cuts[:1]), "cuts=%v pieces=%q: queued delivery gives %s, whole text gives %s", cuts, pieces, got, whole)
					return false
				}
				return true
			}
			got, paused, states := deliverPaused(env, pieces, sc.Kinds)
			res.Sig(fmt.Sprintf("B|%s|%s", strings.Join(states, ","), kindAt(sc.Kinds, 0)))
			for _, s := range states {
				res.Probe("cut-in-" + s[:strings.Index(s, "/")])
			}
			if !paused {
				res.Probe("cut-not-paused")
				return true // by the API's contract the remainder would be a new text; judged by C13.H
			}
			res.Probe("continued-after-pause")
			if !sameParse(whole, got) {
				st := "?"
				if len(states) > 0 {
					st = states[0]
				}
				_ = st
				fail("C13.B-paused", "cut:"+cutClass(sc.Text, cuts[:1]), "cuts=%v pieces=%q: continued delivery gives %s, whole text gives %s", cuts, pieces, got, whole)
				return false
			}
			return true
		}
		if sc.AllCuts > 0 {
			for c := 1; c < nr; c++ {
				if !one([]int{c}) {
					return res
				}
			}
			if sc.AllCuts > 1 {
				for c := 1; c < nr; c++ {
					for d := c + 1; d < nr; d++ {
						if !one([]int{c, d}) {
							return res
						}
					}
				}
			}
		} else {
			one(sc.Cuts)
		}
		// fine-grained deliveries: many chunks (rune by rune, every 2nd / 3rd rune) and empty chunks between
		// non-empty ones - queue lengths and chunk counts that a handful of cuts never reaches
		if sc.Fine && nr >= 2 && nr <= 600 {
			every := func(k, off int, dup bool) []int {
				var cs []int
				for c := 1 + off; c < nr; c += k {
					cs = append(cs, c)
					if dup {
						cs = append(cs, c)
					}
				}
				return cs
			}
			for _, cs := range [][]int{every(1, 0, false), every(2, 0, false), every(3, 1, false), every(3, 0, true), every(7, 2, true)} {
				if len(cs) == 0 {
					continue
				}
				res.Probe(fmt.Sprintf("fine-chunks>=%d", bucketPow2(len(cs)+1)))
				if !one(cs) {
					return res
				}
			}
		}
	case "H":
		whole := parseWhole(sc.Text, false)
		res.Execs++
		if whole.Kind == "panic" {
			return res
		}
		env := zy.New("std")
		defer closeQuietly(env)
		runHistory(env, sc.History, res)
		var got parseRes
		o := zy.Guard(func() (zygo.Sexp, error) {
			p := env.VerifParser()
			p.ResetAddNewInput(mkStream(kindAt(sc.Kinds, 0), sc.Text))
			xs, err := p.ParseTokens()
			got = classify(env, xs, err, false)
			return nil, nil
		})
		res.Execs++
		if o.Panicked {
			got = parseRes{Kind: "panic", Site: o.Site, Msg: o.PanicMsg}
		}
		last := "none"
		var hs []string
		for _, h := range sc.History {
			hs = append(hs, h.Op)
		}
		if len(hs) > 0 {
			last = hs[len(hs)-1]
		}
		res.Sig("H|" + strings.Join(hs, ","))
		if got.Kind == "panic" || !sameParse(whole, got) {
			fail("C13.H-history", "after:"+last, "after history %s the text %q parses as %s, in a fresh interpreter as %s", mustJSON(sc.History), sc.Text, got, whole)
		}
	case "L":
		// last token never lost: parse(t) ≡ parse(t+"\n") ≡ parse(t+" ") for a complete text
		st := refScan(sc.Text)
		if !st.Unfinished() && !st.Mismatch && !st.InLine && (st.InRune || (st.TrailOp && strings.ContainsRune("%^~", st.LastSignif)) || strings.HasSuffix(sc.Text, "~@")) {
			// the text stops after a prefix operator (quote, syntax-quote, unquote, unquote-splicing) or inside a
			// character literal: whatever the parser makes of that (more input, an error), the pending token must not
			// vanish into a clean result
			tail := "prefix-op"
			if st.InRune {
				tail = "rune"
			}
			a := parseWhole(sc.Text, true)
			res.Execs++
			res.Sig("L|" + tail + "|" + string(st.LastSignif))
			res.Probe("L-pending-" + tail)
			if a.Kind == "none" {
				fail("C13.L-last-token", "tail:"+tail, "text %q ends in a pending token (%s) and parses cleanly as %s: the token is lost", sc.Text, tail, a)
			}
			return res
		}
		if st.Unfinished() || st.Mismatch || st.InRune || st.TrailOp {
			res.Probe("L-skipped-incomplete")
			return res
		}
		a := parseWhole(sc.Text, true)
		b := parseWhole(sc.Text+"\n", true)
		c := parseWhole(sc.Text+" ", true)
		res.Execs += 3
		tail := "delim"
		if st.TrailAtom {
			tail = "atom"
		} else if st.InLine {
			tail = "linecomment"
		}
		res.Sig("L|" + tail + "|" + string(st.LastSignif))
		if a.Kind == "panic" || b.Kind == "panic" {
			return res
		}
		if b.Kind == "none" && (!sameParse(a, b) || !sameParse(b, c)) {
			fail("C13.L-last-token", "tail:"+tail, "text %q parses as %s, with a trailing newline as %s, with a trailing space as %s", sc.Text, a, b, c)
		}
	case "R":
		// the production client of the pausable parser: the REPL reader delivers the text line by line and
		// loops on more-input; the expressions it hands out, concatenated, must be those of the whole text
		// (the line reader hands lines over without their line end and the REPL puts a newline back: a carriage
		// return at a line end does not survive that, which is the terminal's convention, not the parser's doing)
		text := strings.ReplaceAll(sc.Text, "\r", "")
		if !strings.HasSuffix(text, "\n") {
			text += "\n"
		}
		whole := parseWhole(text, true)
		res.Execs++
		if whole.Kind != "none" {
			res.Probe("R-skipped-whole-not-clean")
			return res
		}
		env := zy.New("std")
		defer closeQuietly(env)
		var got []string
		n := 0
		bad := ""
		o := zy.Guard(func() (zygo.Sexp, error) {
			rd := bufio.NewReader(strings.NewReader(text))
			for i := 0; i < 400; i++ {
				_, xs, err := env.VerifReplRead(rd)
				res.Execs++
				if err != nil {
					if err != io.EOF {
						bad = err.Error()
					}
					return nil, nil
				}
				s, k := printExprs(env, xs, true)
				got = append(got, s)
				n += k
			}
			return nil, nil
		})
		lines := strings.Count(text, "\n")
		res.Sig(fmt.Sprintf("R|lines=%d|forms=%d", min(lines, 6), min(n, 6)))
		if o.Panicked {
			res.Probe("R-panicked") // C01's business
			return res
		}
		if bad != "" {
			fail("C13.R-repl", "reader-error", "the REPL reader fails on a text that parses cleanly as a whole: %s. text=%q", zy.NormErr(bad), text)
			return res
		}
		if strings.Join(got, "") != whole.Exprs {
			fail("C13.R-repl", "line-by-line", "text %q read line by line through the REPL reader gives %s; parsed whole: %s", text, strings.Join(got, ""), whole.Exprs)
		}
	case "M":
		// more-input exactly when the text so far is an unfinished prefix (generated texts only)
		whole := parseWhole(sc.Text, false)
		res.Execs++
		if whole.Kind != "none" {
			res.Probe("M-skipped-whole-not-clean")
			return res
		}
		rs := []rune(sc.Text)
		for c := 1; c <= len(rs); c++ {
			pre := string(rs[:c])
			st := refScan(pre)
			if st.Mismatch {
				return res
			}
			got := parseWhole(pre, false)
			res.Execs++
			if got.Kind == "panic" {
				continue
			}
			why := ""
			switch {
			case st.InString:
				why = "string"
			case st.InRaw:
				why = "rawstring"
			case st.InBlock:
				why = "blockcomment"
			case st.Depth > 0:
				why = "bracket"
			}
			res.Sig(fmt.Sprintf("M|%s|d%d|%v%v%v", why, min(st.Depth, 3), st.TrailAtom, st.TrailOp, st.InLine))
			if why != "" {
				res.Probe("M-unfinished-" + why)
				if got.Kind != "more" {
					fail("C13.M-more-input", "unfinished:"+why, "prefix %q is unfinished (%s) but the parser answered %s instead of asking for more input", pre, why, got)
					return res
				}
			} else if got.Kind == "more" && !st.TrailOp && !st.InRune && !st.PendingPre {
				fail("C13.M-more-input", "finished", "prefix %q is complete but the parser asked for more input", pre)
				return res
			}
		}
	}
	res.Steps = kernel.Steps()
	return res
}

// closeQuietly: a panic out of Close is C01's business; here it must not kill the worker.
func closeQuietly(env *zygo.Zlisp) {
	defer func() { recover() }()
	env.Close()
}

func mustJSON(v interface{}) string {
	b, _ := json.Marshal(v)
	return string(b)
}

// cutClass: what the cut separates, by an independent scan of the prefix.
func cutClass(text string, cuts []int) string {
	if len(cuts) == 0 {
		return "none"
	}
	rs := []rune(text)
	c := cuts[0]
	if c > len(rs) {
		c = len(rs)
	}
	st := refScan(string(rs[:c]))
	switch {
	case st.InString:
		return "in-string"
	case st.InRaw:
		return "in-raw"
	case st.InBlock:
		return "in-block-comment"
	case st.InLine:
		return "in-line-comment"
	case st.InRune:
		return "in-rune"
	case st.TrailAtom:
		if c < len(rs) && !strings.ContainsRune(" \t\r\n()[]{},;", rs[c]) {
			return "in-atom"
		}
		return "after-atom"
	case st.TrailOp:
		return fmt.Sprintf("after-op-%c", st.LastSignif)
	}
	return "at-delim"
}

// ---- generation

func biasedCuts(r *kernel.RNG, text string, n int) []int {
	rs := []rune(text)
	if len(rs) < 2 {
		return nil
	}
	// candidate positions of special interest
	var special []int
	for i := 1; i < len(rs); i++ {
		a, b := rs[i-1], rs[i]
		if strings.ContainsRune("+-*/<>=!&|:~%^{`\"'\\e.", a) || strings.ContainsRune("+-*/=>@", b) {
			special = append(special, i)
		}
	}
	set := map[int]bool{}
	for len(set) < n && len(set) < len(rs)-1 {
		if len(special) > 0 && r.Chance(0.5) {
			set[special[r.Intn(len(special))]] = true
		} else {
			set[1+r.Intn(len(rs)-1)] = true
		}
	}
	var cuts []int
	for c := range set {
		cuts = append(cuts, c)
	}
	sortInts(cuts)
	return cuts
}

func sortInts(xs []int) {
	for i := 1; i < len(xs); i++ {
		for j := i; j > 0 && xs[j] < xs[j-1]; j-- {
			xs[j], xs[j-1] = xs[j-1], xs[j]
		}
	}
}

func randKinds(r *kernel.RNG, n int) []string {
	ks := make([]string, n)
	for i := range ks {
		ks[i] = r.Pick(streamKinds)
	}
	return ks
}

var histTexts = []string{
	"(+ 1 2)\n", "x", "x ", "(a b", "[1 2", "{a +", "\"open", "`open", "/* open", "(a \"s", "1e", "foo-", "(a))", ")", "(1x)", "\"bad \\q\"",
	"a:", "-", "(def z 3) ", "%", "(a %", "~", "'a", "{ \"k\"", "(b) /", "7 // c", "(quote e) ", "abc", "(f (g (h", "1.5e", "x =", "{a: 1} ",
}

func genHistory(r *kernel.RNG) []histOp {
	n := r.Range(1, 6)
	var hs []histOp
	for i := 0; i < n; i++ {
		op := histOp{Kind: r.Pick(streamKinds)}
		switch r.Weighted([]int{6, 3, 3, 2, 2, 2, 1, 1}) {
		case 0:
			op.Op = "new"
		case 1:
			op.Op = "cont"
		case 2:
			op.Op = "queue"
		case 3:
			op.Op = "eval"
		case 4:
			op.Op = "read"
		case 5:
			op.Op = "repl"
		case 6:
			op.Op = "abandon"
		case 7:
			op.Op = "stop"
		}
		if op.Op != "abandon" && op.Op != "stop" {
			if r.Chance(0.75) {
				op.Text = r.Pick(histTexts)
			} else {
				op.Text = genText(r, 2, 2)
				if r.Chance(0.5) {
					rs := []rune(op.Text)
					op.Text = string(rs[:r.Intn(len(rs)+1)])
				}
			}
			if op.Op == "repl" && !strings.HasSuffix(op.Text, "\n") {
				op.Text += "\n"
			}
		}
		hs = append(hs, op)
	}
	return hs
}

// finalTexts for H: texts whose reading is sensitive to look-back state
var sensitiveTexts = []string{"-1 ", "(- 1 -1) ", "+2 ", "3e-1 ", "a-1 ", "(a) ", "x ", "{a-1} ", "b ", "1 -1 ", "(x)-1 ", "e-1 ", "[-1] "}

func genStreamScenario(mode string) func(*kernel.RNG, string, int) interface{} {
	return func(r *kernel.RNG, tier string, i int) interface{} {
		sc := &streamScenario{Mode: mode}
		fromCorpus := r.Chance(0.35)
		if mode == "M" {
			fromCorpus = false
		}
		if mode == "R" {
			fromCorpus = r.Chance(0.6)
		}
		if fromCorpus {
			sc.Text = corpusChunk(r, 12)
			sc.Src = "corpus"
		} else {
			sc.Text = genText(r, 3, r.Range(1, 3))
			sc.Src = "generated"
		}
		switch mode {
		case "A", "B":
			n := utf8.RuneCountInString(sc.Text)
			switch {
			case n <= 48 && tier == "thorough":
				sc.AllCuts = 2
			case n <= 24:
				sc.AllCuts = 2
			case n <= 120:
				sc.AllCuts = 1
			default:
				sc.Cuts = biasedCuts(r, sc.Text, r.Range(1, 6))
			}
			sc.Kinds = randKinds(r, 4)
			sc.Fine = i%3 == 0
		case "H":
			sc.History = genHistory(r)
			if r.Chance(0.4) {
				sc.Text = r.Pick(sensitiveTexts)
				sc.Src = "sensitive"
			}
			sc.Kinds = randKinds(r, 1)
		case "L":
			// bare tails: strip the trailing delimiter(s)
			if r.Chance(0.8) {
				sc.Text = strings.TrimRight(sc.Text, " \t\r\n")
			}
			if r.Chance(0.3) {
				sc.Text = r.Pick([]string{"42", "a", "(a) b", "\"s\"", "1.5", "a b", "(+ 1 2) 42", "x.y", "'c'", "true", "k:", "// c", "7 // c", "`r`", "0x1F", "-3", "3ULL"})
			}
			if r.Chance(0.15) {
				// a pending token at the very end
				sc.Text += r.Pick([]string{" ~", " %", " ^", " ~@", " 'a", " '", " '\\", "\n~", " (a) ~"})
			}
		}
		return sc
	}
}

func shrinkStream(body json.RawMessage) []json.RawMessage {
	var sc streamScenario
	if json.Unmarshal(body, &sc) != nil {
		return nil
	}
	var out []json.RawMessage
	emit := func(s streamScenario) {
		b, _ := json.Marshal(s)
		out = append(out, b)
	}
	// shorter history first
	for i := range sc.History {
		s := sc
		s.History = append(append([]histOp{}, sc.History[:i]...), sc.History[i+1:]...)
		emit(s)
	}
	for i, h := range sc.History {
		for _, t := range shrinkText(h.Text, 6) {
			s := sc
			s.History = append([]histOp{}, sc.History...)
			s.History[i].Text = t
			emit(s)
		}
		if h.Kind != "buf" {
			s := sc
			s.History = append([]histOp{}, sc.History...)
			s.History[i].Kind = "buf"
			emit(s)
		}
	}
	if sc.AllCuts == 2 {
		s := sc
		s.AllCuts = 1
		emit(s)
	}
	if len(sc.Cuts) > 1 {
		for i := range sc.Cuts {
			s := sc
			s.Cuts = append(append([]int{}, sc.Cuts[:i]...), sc.Cuts[i+1:]...)
			emit(s)
		}
	}
	if len(sc.Cuts) > 0 && len([]rune(sc.Text)) <= 160 {
		// let the executor look for the cut again after the text shrinks
		s := sc
		s.Cuts = nil
		s.AllCuts = 1
		emit(s)
	}
	if sc.AllCuts > 0 || sc.Mode == "H" || sc.Mode == "L" || sc.Mode == "M" || sc.Mode == "R" {
		for _, t := range shrinkText(sc.Text, 40) {
			s := sc
			s.Text = t
			emit(s)
		}
	}
	allBuf := true
	for _, k := range sc.Kinds {
		if k != "buf" {
			allBuf = false
		}
	}
	if !allBuf {
		s := sc
		s.Kinds = nil
		emit(s)
	}
	return out
}

func init() {
	cnt := func(q, t int) func(string) int {
		return func(tier string) int {
			if tier == "thorough" {
				return t
			}
			return q
		}
	}
	mk := func(name, mode string, q, t int) *kernel.Part {
		return &kernel.Part{Name: name, Count: cnt(q, t), Generate: genStreamScenario(mode), Execute: execStream, Shrink: shrinkStream}
	}
	kernel.Register(&kernel.Plan{
		Property: "C13",
		Level:    "exploration",
		Rule: "texts = chunks of the script corpus and generated texts over the lexer's token alphabet; deliveries = the text cut at rune positions and fed to the real pausable parser " +
			"(A: all pieces queued then one parse; B: interactive continuation after each more-input pause; every single cut and every pair of cuts for short texts, seeded biased cuts for long ones; four stream implementations), " +
			"R: the text delivered line by line through the REPL reader; H: a seeded history of earlier parses/evals/reads/REPL reads/abandons/stops on the same interpreter and then the text; M: every prefix of a generated text against an independent reference scanner; " +
			"L: text vs text+newline vs text+space. Oracle: equality with the whole text parsed in a fresh interpreter. " +
			"distinct_nontrivial counts distinct (mode, lexer state and parser depth at each cut / history op sequence / scanner class) signatures.",
		Components: map[string][]string{
			"real": {"Lexer", "Parser (iter.Pull coroutine)", "stream queue (AddNextStream/PromoteNextStream)", "Reset/ResetAddNewInput", "REPL line reader", "read builtin", "comment filters"},
			"stub": {"script transport (4 RuneScanner implementations, chunking decided by the simulator)", "terminal (bufio.Reader over a string)"},
		},
		Assume: []string{
			"only cuts at which the parser reported more-input continue the same text (API contract); any other remainder is a new text and is judged by the history clause",
			"reader errors are treated as end of stream by the lexer; the property is silent on I/O errors (those feed C01)",
			"the more-input clause is evaluated on generated texts only, whose alphabet the 60-line reference scanner covers; texts ending in a prefix operator are not judged",
		},
		Parts: []*kernel.Part{
			mk("A-queued", "A", 500, 6000),
			mk("B-paused", "B", 700, 8000),
			mk("H-history", "H", 3000, 60000),
			mk("L-last-token", "L", 1500, 20000),
			mk("M-more-input", "M", 600, 8000),
			mk("R-repl", "R", 1500, 20000),
		},
	})
}

func bucketPow2(n int) int {
	b := 1
	for b*2 <= n {
		b *= 2
	}
	return b
}
