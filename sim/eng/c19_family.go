package eng

import (
	"encoding/json"
	"fmt"
	"strconv"
	"strings"

	"verifsim/kernel"
	"verifsim/zy"

	"github.com/glycerine/zygomys/v9/zygo"
)

// Engine `family`, C19: a family of interpreters grown from one root by
// Duplicate/Clone shares the symbol tables; each member carries its own
// counter. The simulator decides which member acts next and what it does.

type famName struct {
	Lit    string `json:"lit,omitempty"`    // literal name
	Prefix string `json:"prefix,omitempty"` // or: prefix + (counter of member Rel + Delta), resolved at execution
	Rel    int    `json:"rel,omitempty"`
	Delta  int    `json:"delta,omitempty"`
}

type famOp struct {
	Op     string  `json:"op"` // mk gen dup clone gensym gensymp str2sym evalfn evalfor readsym
	Member int     `json:"m"`  // index into the family at that point (mod size)
	Name   famName `json:"name,omitempty"`
	Name2  famName `json:"name2,omitempty"` // joinsym: second part
	Prefix string  `json:"prefix,omitempty"`
}

type famScenario struct {
	Env string  `json:"env"`
	Ops []famOp `json:"ops"`
}

// (decorated names next to their plain twins: a sigil, a dot or a trailing colon is part of the name)
var famLits = []string{"a", "b", "foo", "__gensym", "__anon", "x9", "#lz", "lz", "?q", "q", "a.b", "c.b", "ab", ".dot", "dot", "k:", "k", "x-y", "A", "a1", "a:", "#a", "b.", "fo", "o", "", " ", "a b"}
var famPrefixes = []string{"__gensym", "__anon", "__loop", "__g", "p", "__g1", "p1", "__gensym0"}

func genFamName(r *kernel.RNG) famName {
	if r.Chance(0.45) {
		return famName{Lit: r.Pick(famLits)}
	}
	// a name shaped like a generated symbol for a counter value in play
	return famName{Prefix: r.Pick(famPrefixes), Rel: r.Intn(5), Delta: r.Range(-1, 3)}
}

func genFamScenario(r *kernel.RNG, tier string, i int) interface{} {
	sc := &famScenario{Env: r.Pick([]string{"std", "std", "bare", "sandbox-std"})}
	n := r.Range(2, 24)
	if r.Chance(0.5) {
		n = r.Range(2, 8)
	}
	w := []int{r.Range(1, 5), r.Range(1, 6), r.Range(1, 3), r.Range(0, 2), r.Range(0, 3), r.Range(0, 3), r.Range(0, 2), r.Range(0, 2), r.Range(0, 2), r.Range(0, 2), r.Range(0, 2), r.Range(0, 2), r.Range(0, 2), r.Range(0, 1)}
	kinds := []string{"mk", "gen", "dup", "clone", "gensym", "gensymp", "str2sym", "evalfn", "evalfor", "readsym", "rmsym", "joinsym", "jsonsym", "root"}
	for j := 0; j < n; j++ {
		op := famOp{Op: kinds[r.Weighted(w)], Member: r.Intn(5)}
		switch op.Op {
		case "mk", "str2sym", "readsym", "rmsym", "jsonsym":
			op.Name = genFamName(r)
		case "joinsym":
			op.Name = genFamName(r)
			op.Name2 = genFamName(r)
		case "gen", "gensymp":
			op.Prefix = r.Pick(famPrefixes)
		}
		sc.Ops = append(sc.Ops, op)
	}
	return sc
}

// exhaustive: 2 members max (root + one dup), ops from a small alphabet, depth ≤ D
// alphabet (per step): for member m∈{0,1}: mk(lit a) mk(shaped __g+counter(m)) gen(__g)  => 6, plus dup(0) => 7
func famExhCount(D int) int {
	n, p := 0, 1
	for d := 1; d <= D; d++ {
		p *= 7
		n += p
	}
	return n
}

func genFamExhaustive(_ *kernel.RNG, tier string, i int) interface{} {
	l, p := 1, 7
	for i >= p {
		i -= p
		l++
		p *= 7
	}
	sc := &famScenario{Env: "bare"}
	for j := 0; j < l; j++ {
		d := i % 7
		i /= 7
		if d == 6 {
			sc.Ops = append(sc.Ops, famOp{Op: "dup", Member: 0})
			continue
		}
		m := d / 3
		switch d % 3 {
		case 0:
			sc.Ops = append(sc.Ops, famOp{Op: "mk", Member: m, Name: famName{Lit: "a"}})
		case 1:
			sc.Ops = append(sc.Ops, famOp{Op: "mk", Member: m, Name: famName{Prefix: "__g", Rel: m, Delta: 0}})
		case 2:
			sc.Ops = append(sc.Ops, famOp{Op: "gen", Member: m, Prefix: "__g"})
		}
	}
	return sc
}

func execFamily(body json.RawMessage) *kernel.Result {
	var sc famScenario
	res := &kernel.Result{}
	if err := json.Unmarshal(body, &sc); err != nil {
		res.Violate("", "harness", "bad-scenario", err.Error())
		return res
	}
	root := zy.New(sc.Env)
	defer root.Close()
	fam := []*zygo.Zlisp{root}
	// a scenario may start further, unrelated interpreters in the same process ("root"): each is a family of its own
	// with its own table and its own books; what one family does must not show in another
	type books struct {
		root      *zygo.Zlisp
		returned  map[int]string  // number -> name, of every symbol ever handed out
		byName    map[string]int  // name -> number
		generated map[string]bool // names of generated symbols
	}
	newBooks := func(r *zygo.Zlisp) *books {
		return &books{root: r, returned: map[int]string{}, byName: map[string]int{}, generated: map[string]bool{}}
	}
	families := []*books{newBooks(root)}
	famOf := []int{0} // member index -> family index
	cur := families[0]
	returned, byName, generated := cur.returned, cur.byName, cur.generated
	use := func(mi int) {
		cur = families[famOf[mi]]
		returned, byName, generated = cur.returned, cur.byName, cur.generated
	}

	fail := func(clause, site, f string, a ...interface{}) {
		res.Violate("C19", clause, site, fmt.Sprintf(f, a...))
	}
	record := func(step int, how string, name string, num int) {
		if n0, ok := byName[name]; ok && n0 != num {
			fail("C19.I2-same-name-same-symbol", how, "step %d: name %q was symbol #%d earlier and is #%d now", step, name, n0, num)
		}
		if nm0, ok := returned[num]; ok && nm0 != name {
			fail("C19.I2-same-name-same-symbol", how, "step %d: symbol #%d was handed out for %q and now for %q: different names, equal symbols", step, num, nm0, name)
		}
		byName[name] = num
		returned[num] = name
	}
	resolve := func(n famName) string {
		if n.Prefix == "" {
			return n.Lit
		}
		m := fam[n.Rel%len(fam)]
		_, _, next := m.VerifSymtab()
		return n.Prefix + strconv.Itoa(next+n.Delta)
	}
	checkGenerated := func(step int, how string, sym *zygo.SexpSymbol, before map[string]int, prefix string) {
		name := sym.Name()
		if _, existed := before[name]; existed {
			fail("C19.I3-fresh", how, "step %d: generated symbol %q (prefix %q) already existed when it was generated", step, name, prefix)
			res.Probe("gen-candidate-preexists")
		}
		if generated[name] {
			fail("C19.I3-fresh", how, "step %d: generated symbol %q was already generated earlier in this family", step, name)
		}
		generated[name] = true
		record(step, how, name, sym.Number())
	}
	invariants1 := func(step int, b *books) {
		byName := b.byName
		fwd, rev, _ := b.root.VerifSymtab()
		if len(fwd) != len(rev) {
			fail("C19.I1-bijection", "tables", "step %d: %d names but %d numbers in the shared tables", step, len(fwd), len(rev))
			return
		}
		for name, num := range fwd {
			if rev[num] != name {
				fail("C19.I1-bijection", "tables", "step %d: name %q -> #%d but #%d -> %q", step, name, num, num, rev[num])
				return
			}
		}
		for name, num := range byName {
			if fwd[name] != num {
				fail("C19.I2-same-name-same-symbol", "tables", "step %d: returned symbol %q #%d is now #%d in the table", step, name, num, fwd[name])
				return
			}
		}
	}
	invariants := func(step int) {
		for _, b := range families {
			invariants1(step, b)
		}
	}

	for step, op := range sc.Ops {
		mi := op.Member % len(fam)
		m := fam[mi]
		use(mi)
		_, _, myNext := m.VerifSymtab()
		skew := 0
		for oi, o := range fam {
			if famOf[oi] != famOf[mi] {
				continue
			}
			_, _, n := o.VerifSymtab()
			if n > myNext {
				skew = 1
			}
		}
		res.Sig(fmt.Sprintf("%s|stale=%d|fam=%d|%s", op.Op, skew, len(fam), prefixOfOps(sc.Ops, step)))
		if skew == 1 && (op.Op == "gen" || op.Op == "gensym" || op.Op == "gensymp") {
			res.Probe("gensym-by-stale-member")
		}
		res.Execs++
		switch op.Op {
		case "mk":
			name := resolve(op.Name)
			fwd, rev, next := m.VerifSymtab()
			_, existed := fwd[name]
			if _, used := rev[next]; used && !existed {
				res.Probe("intern-skips-used-number")
			}
			o := zy.Guard(func() (zygo.Sexp, error) { return m.MakeSymbol(name), nil })
			if o.Panicked {
				fail("C19.P-panic", "MakeSymbol@"+o.Site, "step %d: MakeSymbol(%q) panicked: %s", step, name, o.PanicMsg)
				break
			}
			s := o.Val.(*zygo.SexpSymbol)
			if s.Name() != name {
				fail("C19.I2-same-name-same-symbol", "MakeSymbol", "step %d: MakeSymbol(%q) returned a symbol named %q", step, name, s.Name())
			}
			record(step, "MakeSymbol", name, s.Number())
			// any other member must see the same symbol
			for oi, o2 := range fam {
				if famOf[oi] != famOf[mi] {
					continue
				}
				if s2 := o2.MakeSymbol(name); s2.Number() != s.Number() {
					fail("C19.I2-same-name-same-symbol", "MakeSymbol", "step %d: member %d interned %q as #%d, member %d gets #%d", step, mi, name, s.Number(), oi, s2.Number())
				}
			}
			res.Tracef("%d mk %d %s", step, mi, op.Name.Lit+op.Name.Prefix)
		case "gen":
			before, _, _ := m.VerifSymtab()
			o := zy.Guard(func() (zygo.Sexp, error) { return m.GenSymbol(op.Prefix), nil })
			if o.Panicked {
				fail("C19.P-panic", "GenSymbol@"+o.Site, "step %d: GenSymbol(%q) panicked: %s", step, op.Prefix, o.PanicMsg)
				break
			}
			checkGenerated(step, "GenSymbol", o.Val.(*zygo.SexpSymbol), before, op.Prefix)
			res.Tracef("%d gen %d %s", step, mi, op.Prefix)
		case "gensym", "gensymp":
			before, _, _ := m.VerifSymtab()
			code := "(gensym)"
			if op.Op == "gensymp" {
				code = fmt.Sprintf("(gensym %q)", op.Prefix)
			}
			o := zy.Eval(m, code+" ", zy.DefaultBudget)
			if s, isSym := o.Val.(*zygo.SexpSymbol); o.OK() && isSym {
				checkGenerated(step, "gensym", s, before, op.Prefix)
			} else if o.Panicked {
				fail("C19.P-panic", "gensym@"+o.Site, "step %d: %s panicked: %s", step, code, o.PanicMsg)
			} else {
				res.Probe("gensym-unavailable")
			}
			res.Tracef("%d %s %d", step, op.Op, mi)
		case "str2sym", "readsym":
			name := resolve(op.Name)
			code := fmt.Sprintf("(str2sym %q)", name)
			if op.Op == "readsym" {
				code = fmt.Sprintf("(quote %s)", name)
			}
			o := zy.Eval(m, code+" ", zy.DefaultBudget)
			if s, isSym := o.Val.(*zygo.SexpSymbol); o.OK() && isSym {
				if s.Name() == name {
					record(step, op.Op, name, s.Number())
				} else if op.Op == "str2sym" {
					// (the reader may split decorations off a name; str2sym is given the name itself)
					fail("C19.I2-same-name-same-symbol", "str2sym", "step %d: %s returned the symbol named %q: a different name, so equal to (str2sym %q)", step, code, s.Name(), s.Name())
				}
			} else if o.Panicked {
				fail("C19.P-panic", op.Op+"@"+o.Site, "step %d: %s panicked: %s", step, code, o.PanicMsg)
			}
			res.Tracef("%d %s %d", step, op.Op, mi)
		case "rmsym":
			// bind a variable of that name and remove the binding again: the symbol itself must stay what it is
			name := resolve(op.Name)
			if zygo.SymbolRegex.MatchString(name) && !strings.ContainsAny(name, ".:#?") {
				o := zy.Eval(m, fmt.Sprintf("(def %s 1) (rmsym (quote %s)) ", name, name), zy.DefaultBudget)
				if o.Panicked {
					fail("C19.P-panic", "rmsym@"+o.Site, "step %d: def+rmsym of %s panicked: %s", step, name, o.PanicMsg)
				}
				if o.OK() {
					res.Probe("rmsym")
					// the name was interned by the def at the latest
					s2 := m.MakeSymbol(name)
					record(step, "rmsym", name, s2.Number())
				}
			}
			res.Tracef("%d rmsym %d", step, mi)
		case "evalfn":
			// anonymous functions and loops generate symbols internally
			o := zy.Eval(m, "((fn [x] (+ x 1)) 1) ", zy.DefaultBudget)
			if o.Panicked {
				fail("C19.P-panic", "fn@"+o.Site, "step %d: fn panicked: %s", step, o.PanicMsg)
			}
			res.Tracef("%d evalfn %d", step, mi)
		case "evalfor":
			o := zy.Eval(m, "(for [(def i 0) (< i 2) (def i (+ i 1))] i) ", zy.DefaultBudget)
			if o.Panicked {
				fail("C19.P-panic", "for@"+o.Site, "step %d: for panicked: %s", step, o.PanicMsg)
			}
			res.Tracef("%d evalfor %d", step, mi)
		case "joinsym", "jsonsym":
			name := resolve(op.Name)
			code := ""
			if op.Op == "joinsym" {
				n2 := resolve(op.Name2)
				code = fmt.Sprintf("(joinsym (str2sym %q) (str2sym %q))", name, n2)
				name += n2
			} else {
				// a member name of decoded JSON is interned by the decoder
				if strings.ContainsAny(name, "\"\\") || name == "Atype" || name == "zKeyOrder" {
					break
				}
				code = fmt.Sprintf("(first (keys (unjson (raw %q))))", fmt.Sprintf("{%q:1}", name))
			}
			o := zy.Eval(m, code+" ", zy.DefaultBudget)
			if s, isSym := o.Val.(*zygo.SexpSymbol); o.OK() && isSym {
				if s.Name() == name {
					record(step, op.Op, name, s.Number())
					if s2 := m.MakeSymbol(name); s2.Number() != s.Number() {
						fail("C19.I2-same-name-same-symbol", op.Op, "step %d: %s gave %q as #%d, MakeSymbol of the same name gives #%d", step, code, name, s.Number(), s2.Number())
					}
				} else if op.Op == "joinsym" {
					fail("C19.I2-same-name-same-symbol", "joinsym", "step %d: %s returned the symbol named %q, not %q", step, code, s.Name(), name)
				}
				res.Probe(op.Op)
			} else if o.Panicked {
				fail("C19.P-panic", op.Op+"@"+o.Site, "step %d: %s panicked: %s", step, code, o.PanicMsg)
			}
			res.Tracef("%d %s %d", step, op.Op, mi)
		case "root":
			if len(families) < 3 && len(fam) < 5 {
				nr := zy.New(sc.Env)
				defer nr.Close()
				fam = append(fam, nr)
				famOf = append(famOf, len(families))
				families = append(families, newBooks(nr))
				res.Probe("unrelated-root")
			}
			res.Tracef("%d root", step)
		case "dup":
			if len(fam) < 5 {
				fam = append(fam, m.Duplicate())
				famOf = append(famOf, famOf[mi])
				res.Probe("duplicate")
			}
			res.Tracef("%d dup %d", step, mi)
		case "clone":
			if len(fam) < 5 {
				fam = append(fam, m.Clone())
				famOf = append(famOf, famOf[mi])
				res.Probe("clone")
			}
			res.Tracef("%d clone %d", step, mi)
		}
		invariants(step)
		if len(res.Violations) > 0 {
			break
		}
	}
	// script-level agreement: == and hash lookups keyed by symbols follow name equality, in every member
	if len(res.Violations) == 0 {
		for mi, m := range fam {
			if mi > 2 {
				break
			}
			use(mi)
			names := make([]string, 0, len(byName))
			var dotted []string
			for n := range byName {
				if zygo.SymbolRegex.MatchString(n) && !strings.ContainsAny(n, ".: \t\n") && n != "" {
					names = append(names, n) // (only names that script text can spell)
				}
				if parts := strings.Split(n, "."); len(parts) == 2 && parts[0] != "" && parts[1] != "" && zygo.SymbolRegex.MatchString(parts[0]) && zygo.SymbolRegex.MatchString(parts[1]) && !strings.Contains(n, ":") {
					dotted = append(dotted, n)
				}
			}
			sortStrings(names)
			sortStrings(dotted)
			if len(names) > 4 {
				names = names[:4]
			}
			// names with a dot in them are symbols like any other; here their heads happen to be bound to records
			// whose members agree, as they may be in any script
			if len(dotted) >= 2 && mi == 0 {
				for _, d := range dotted {
					parts := strings.Split(d, ".")
					zy.Eval(m, fmt.Sprintf("(def %s (hash %s: 1)) ", parts[0], parts[1]), zy.DefaultBudget)
				}
				for i, a := range dotted {
					for j, b := range dotted {
						res.Execs++
						o := zy.Eval(m, fmt.Sprintf("(== (quote %s) (quote %s)) ", a, b), zy.DefaultBudget)
						bv, isB := o.Val.(*zygo.SexpBool)
						if !o.OK() || !isB {
							continue
						}
						res.Probe("dotted-names-compared")
						if bv.Val != (i == j) {
							fail("C19.I4-script-level", "==dotted", "member %d: (== %%%s %%%s) is %v", mi, a, b, bv.Val)
						}
					}
				}
			}
			for i, a := range names {
				for j, b := range names {
					res.Execs++
					o := zy.Eval(m, fmt.Sprintf("(== (quote %s) (quote %s)) ", a, b), zy.DefaultBudget)
					bv, isB := o.Val.(*zygo.SexpBool)
					if !o.OK() || !isB {
						continue
					}
					if bv.Val != (i == j) {
						fail("C19.I4-script-level", "==", "member %d: (== %%%s %%%s) is %v", mi, a, b, bv.Val)
					}
				}
			}
			if len(names) >= 2 {
				res.Execs++
				var sb strings.Builder
				sb.WriteString("(def hh (hash")
				for i, a := range names {
					fmt.Fprintf(&sb, " %%%s %d", a, 1000+i)
				}
				sb.WriteString(")) [")
				for _, a := range names {
					fmt.Fprintf(&sb, " (hget hh %%%s)", a)
				}
				sb.WriteString("] ")
				o := zy.Eval(m, sb.String(), zy.DefaultBudget)
				if arr, isArr := o.Val.(*zygo.SexpArray); o.OK() && isArr {
					for i, x := range arr.Val {
						if iv, isInt := x.(*zygo.SexpInt); !isInt || int(iv.Val) != 1000+i {
							fail("C19.I4-script-level", "hash-key", "member %d: hash keyed by symbols %v gives %s", mi, names, zy.Show(arr))
							break
						}
					}
				}
			}
		}
	}
	res.Steps = kernel.Steps()
	return res
}

func sortStrings(xs []string) {
	for i := 1; i < len(xs); i++ {
		for j := i; j > 0 && xs[j] < xs[j-1]; j-- {
			xs[j], xs[j-1] = xs[j-1], xs[j]
		}
	}
}

// abstract schedule prefix: last three (member, op) pairs
func prefixOfOps(ops []famOp, step int) string {
	lo := step - 2
	if lo < 0 {
		lo = 0
	}
	var sb strings.Builder
	for _, o := range ops[lo : step+1] {
		fmt.Fprintf(&sb, "%d%s,", o.Member%5, o.Op)
	}
	return sb.String()
}

func shrinkFamily(body json.RawMessage) []json.RawMessage {
	var sc famScenario
	if json.Unmarshal(body, &sc) != nil {
		return nil
	}
	var out []json.RawMessage
	emit := func(s famScenario) {
		b, _ := json.Marshal(s)
		out = append(out, b)
	}
	n := len(sc.Ops)
	for _, chunk := range []int{n / 2, n / 4, 1} {
		if chunk < 1 {
			continue
		}
		for i := 0; i+chunk <= n; i += chunk {
			s := sc
			s.Ops = append(append([]famOp{}, sc.Ops[:i]...), sc.Ops[i+chunk:]...)
			emit(s)
		}
	}
	if sc.Env != "bare" {
		s := sc
		s.Env = "bare"
		emit(s)
	}
	for i, op := range sc.Ops {
		if op.Member != 0 {
			s := sc
			s.Ops = append([]famOp{}, sc.Ops...)
			s.Ops[i].Member = op.Member - 1
			emit(s)
		}
		if op.Op == "clone" {
			s := sc
			s.Ops = append([]famOp{}, sc.Ops...)
			s.Ops[i].Op = "dup"
			emit(s)
		}
	}
	return out
}

func init() {
	kernel.Register(&kernel.Plan{
		Property: "C19",
		Level:    "exploration",
		Rule: "seeded schedules over a family of up to 5 interpreters (root + Duplicate/Clone) sharing one symbol table: which member acts and what it does " +
			"(MakeSymbol, GenSymbol, gensym with/without prefix, str2sym, quoted read, fn/for which generate symbols internally, Duplicate, Clone), names drawn from a pool that " +
			"includes names shaped like generated symbols for the counter values in play; invariants after every step. Plus exhaustive enumeration of all schedules over " +
			"{root, one duplicate} x {intern literal, intern counter-shaped name, generate} to a depth bound. distinct_nontrivial counts distinct (op, staleness of the acting member's counter, family size, last three (member,op) pairs).",
		Components: map[string][]string{
			"real": {"MakeSymbol", "GenSymbol", "Duplicate", "Clone", "gensym/str2sym builtins", "parser interning", "generator-internal gensyms", "symbol comparison", "hash keys by symbol"},
			"stub": {"scheduler choosing the acting member (the simulator)"},
		},
		Assume: []string{"family members act one at a time (zygomys has no concurrent API); the interleaving, not parallelism, is what is explored"},
		Parts: []*kernel.Part{
			{
				Name: "exhaustive",
				Count: func(tier string) int {
					if tier == "thorough" {
						return famExhCount(6)
					}
					return famExhCount(4)
				},
				Generate:   genFamExhaustive,
				Execute:    execFamily,
				Shrink:     shrinkFamily,
				Exhaustive: func(string) bool { return true },
			},
			{
				Name: "seeded",
				Count: func(tier string) int {
					if tier == "thorough" {
						return 300000
					}
					return 8000
				},
				Generate: genFamScenario,
				Execute:  execFamily,
				Shrink:   shrinkFamily,
			},
		},
	})
}
