//go:build verif_oswall

package eng

import (
	"flag"
	"encoding/json"
	"fmt"
	"os"
	"path/filepath"
	"sort"
	"strings"

	"verifsim/kernel"
	"verifsim/zy"

	"github.com/glycerine/zygomys/v9/zygo"
	"github.com/glycerine/zygomys/v9/zygo/verifos"
)

// Engine `oswall`, C08: every use of os / os/exec / io/ioutil / syscall / net
// functions in package zygo goes through a logged shim (source rewriting of
// the scratch copy, resolved by go/types). In a sandboxed interpreter the log
// must stay empty whatever a script names.

type c08Call struct {
	Name  string `json:"name"`
	Args  string `json:"args"`
	Route string `json:"route"`
}

type c08Scenario struct {
	Config string    `json:"config"` // bare std bare-dup std-dup std-clone
	Calls  []c08Call `json:"calls,omitempty"`
	Text   string    `json:"text,omitempty"` // alternatively: one program text (corpus)
	Name   string    `json:"name,omitempty"`
	Flags  []string  `json:"flags,omitempty"` // cli configurations: further command-line flags next to -sandbox
	Texts  []string  `json:"texts,omitempty"` // several evaluations, one after the other, in ONE interpreter
}

// scenarios name the canary by placeholder; each process has its own real canary inside the scratch directory
const canaryDir = "@CANARYDIR@"
const canaryFile = canaryDir + "/secret.txt"
const canaryContent = "CANARY-CONTENT-7f3a"
const canaryEnv = "VERIF_CANARY_ENV"

var realCanaryDir string

func setupCanary() {
	if realCanaryDir == "" {
		exe, _ := os.Executable()
		realCanaryDir = filepath.Join(filepath.Dir(exe), fmt.Sprintf("canary-%d", os.Getpid()))
	}
	os.MkdirAll(realCanaryDir, 0755)
	os.WriteFile(filepath.Join(realCanaryDir, "secret.txt"), []byte(canaryContent), 0644)
	os.WriteFile(filepath.Join(realCanaryDir, "pkg.zy"), []byte("(def canaryLeaked 7)\n"), 0644)
	os.Setenv(canaryEnv, "canary-env-value")
}

func realPaths(s string) string { return strings.ReplaceAll(s, canaryDir, realCanaryDir) }

func canaryIntact() string {
	b, err := os.ReadFile(filepath.Join(realCanaryDir, "secret.txt"))
	if err != nil || string(b) != canaryContent {
		return "canary file changed or removed"
	}
	ents, _ := os.ReadDir(realCanaryDir)
	if zb, err := os.ReadFile(filepath.Join(realCanaryDir, "pkg.zy")); err != nil || string(zb) != "(def canaryLeaked 7)\n" {
		return "canary script file changed or removed"
	}
	if len(ents) != 2 {
		return fmt.Sprintf("canary directory now has %d entries", len(ents))
	}
	if os.Getenv(canaryEnv) != "canary-env-value" {
		return "canary environment variable changed"
	}
	return ""
}

// crossing ops: what the property forbids. (Getwd and ReadAll on an already
// open reader are logged but are not "reaching the outside world" by themselves.)
func isCrossing(op string) bool {
	switch op {
	case "os.Getwd", "io/ioutil.ReadAll":
		return false
	}
	return true
}

var c08ArgShapes = []string{
	"",
	// names with the extensions the interpreter itself knows about, existing and not, and the directory itself
	fmt.Sprintf("%q", canaryDir+"/pkg.zy"),
	fmt.Sprintf("%q", canaryDir+"/nosuch.zy"),
	fmt.Sprintf("%q", canaryDir+"/pkg"),
	fmt.Sprintf("%q", canaryDir),
	fmt.Sprintf("(quote %s)", "pkg.zy"),
	fmt.Sprintf("%q", canaryFile),
	fmt.Sprintf("%q %q", canaryFile, "x"),
	"(quote " + "secret.txt" + ")",
	"`" + canaryFile + "`",
	fmt.Sprintf("[%q]", canaryFile),
	fmt.Sprintf("(list %q)", canaryFile),
	`"echo pwned > ` + canaryDir + `/pwned"`,
	fmt.Sprintf("%q", canaryEnv),
	fmt.Sprintf("%q %q", canaryEnv, "changed"),
	"0",
	"1 2 3",
	fmt.Sprintf("%q (hash a: 1)", canaryDir+"/new.txt"),
	"echo hi",
	fmt.Sprintf("tests/prepackage"),
	fmt.Sprintf("%q %q", canaryDir+"/new.txt", "content"),
	// a callable, a count and a path in various positions (profiling / logging / output-file style options)
	fmt.Sprintf("(fn [] 1) 1 %q", canaryDir+"/new.txt"),
	fmt.Sprintf("(fn [] 1) %q", canaryDir+"/new.txt"),
	fmt.Sprintf("%q (fn [] 1) 1", canaryDir+"/new.txt"),
	fmt.Sprintf("1 %q", canaryDir+"/new.txt"),
	fmt.Sprintf("1 2 %q", canaryFile),
	fmt.Sprintf("(hash file: %q) 1", canaryDir+"/new.txt"),
	fmt.Sprintf("%q 1 2 3", canaryFile),
	fmt.Sprintf("nil %q", canaryFile),
	// decorated paths, commands and names: the conventions by which tools let a string stand for a file, a process or
	// an environment variable (curl's @file, URLs, shell redirections and pipes, $NAME)
	fmt.Sprintf("%q", "@"+canaryFile),
	fmt.Sprintf("%q", "file://"+canaryFile),
	fmt.Sprintf("%q", "<"+canaryFile),
	fmt.Sprintf("%q %q", ">"+canaryDir+"/new.txt", "x"),
	`"| echo pwned > ` + canaryDir + `/pwned"`,
	fmt.Sprintf("%q", "$"+canaryEnv),
	fmt.Sprintf("%q", "${"+canaryEnv+"}"),
	fmt.Sprintf("(raw %q)", "@"+canaryFile),
	// a path or name in second position behind each kind of first argument (encoders with an optional destination,
	// conversions with an optional zone or locale name ...); relative names too
	fmt.Sprintf("(hash a: 1) %q", canaryDir+"/new.txt"),
	fmt.Sprintf("[1 2] %q", canaryDir+"/new.txt"),
	fmt.Sprintf("(list 1) %q", canaryDir+"/new.txt"),
	fmt.Sprintf("(now) %q", "secret.txt"),
	fmt.Sprintf("(now) %q", "../"+"secret.txt"),
	fmt.Sprintf("%q %q", "2024-01-02T03:04:05Z", "Canary/Zone"),
	fmt.Sprintf("(raw %q) %q", "ab", canaryDir+"/new.txt"),
	fmt.Sprintf("%q %q", canaryDir+"/new.txt", canaryDir+"/new2.txt"),
}

var c08Routes = []string{"direct", "alias", "apply", "map", "eval", "macro", "infix", "thread", "dot"}

func c08Program(c c08Call) string {
	call := "(" + c.Name + " " + c.Args + ")"
	switch c.Route {
	case "alias":
		return "(def al9 " + c.Name + ") (al9 " + c.Args + ")"
	case "apply":
		return "(apply " + c.Name + " [" + c.Args + "])"
	case "map":
		return "(map " + c.Name + " [" + c.Args + "])"
	case "eval":
		return "(eval (quote " + call + "))"
	case "macro":
		return "(defmac mw9 [] ^" + call + ") (mw9)"
	case "infix":
		return "{ " + c.Name + "(" + strings.ReplaceAll(c.Args, "\" \"", "\", \"") + ") }"
	case "thread":
		return "(-> " + firstArg(c.Args) + " " + c.Name + ")"
	case "dot":
		return "(def pk9 (package \"pk9\" { F := " + c.Name + " })) (pk9.F " + c.Args + ")"
	}
	return call
}

func firstArg(a string) string {
	if a == "" {
		return "nil"
	}
	if a[0] == '"' {
		if i := strings.Index(a[1:], "\""); i >= 0 {
			return a[:i+2]
		}
	}
	return strings.Fields(a)[0]
}

func c08Env(config string) (*zygo.Zlisp, *zygo.Zlisp) {
	var root *zygo.Zlisp
	switch {
	case strings.HasPrefix(config, "std"):
		root = zygo.NewZlispSandbox()
		root.StandardSetup()
	default:
		root = zygo.NewZlispSandbox()
	}
	switch {
	case strings.HasSuffix(config, "-dup"):
		return root.Duplicate(), root
	case strings.HasSuffix(config, "-clone"):
		return root.Clone(), root
	}
	return root, root
}

func denyAll(op string, args []string) bool { return false }

// runCliSandbox: the command-line tool's own sandbox mode, in process: ReplMain -sandbox -no-liner -quiet with the
// script on stdin (REPL lines, dot-commands included) or given with -c. Returns whether os.Exit was reached with a
// status (the tool's normal way out, not a script's doing).
func runCliSandbox(text string, viaC bool, extra []string) {
	exe, _ := os.Executable()
	tmp := filepath.Join(filepath.Dir(exe), fmt.Sprintf("c08cli-%d", os.Getpid()))
	os.MkdirAll(tmp, 0755)
	defer os.RemoveAll(tmp)
	cfg := zygo.NewZlispConfig("zygo")
	cfg.DefineFlags()
	args := []string{"-no-liner", "-quiet", "-sandbox"}
	for _, f := range extra {
		args = append(args, "-"+f)
	}
	stdin := text
	if viaC {
		args = append(args, "-c", text)
		stdin = ""
	}
	sf := filepath.Join(tmp, "stdin")
	os.WriteFile(sf, []byte(stdin), 0644)
	fh, err := os.Open(sf)
	if err != nil {
		return
	}
	defer fh.Close()
	saved := os.Stdin
	os.Stdin = fh
	defer func() { os.Stdin = saved }()
	cfg.Flags.Parse(args)
	cfg.ValidateConfig()
	zygo.ReplMain(cfg)
}

func execC08(body json.RawMessage) *kernel.Result {
	var sc c08Scenario
	res := &kernel.Result{}
	if err := json.Unmarshal(body, &sc); err != nil {
		res.Violate("", "harness", "bad-scenario", err.Error())
		return res
	}
	setupCanary()
	verifos.Policy = denyAll
	root := filepath.Dir(corpusDir())
	osChdir(root)
	fail := func(site, f string, a ...interface{}) {
		res.Violate("C08", "C08.W-wall", site, fmt.Sprintf(f, a...))
	}
	run := func(label, text string) {
		text = realPaths(text)
		isCli := strings.HasPrefix(sc.Config, "cli")
		var env, rootEnv *zygo.Zlisp
		if !isCli {
			env, rootEnv = c08Env(sc.Config)
			defer closeQuietly(rootEnv)
		}
		verifos.Reset()
		res.Execs++
		exited := ""
		func() {
			defer func() {
				if r := recover(); r != nil {
					if ex, isExit := r.(verifos.ExitSentinel); isExit {
						if !isCli {
							exited = fmt.Sprintf("os.Exit(%d)", ex.Code)
						}
						// the command-line tool leaves through os.Exit by itself (end of input, -c): not a script's doing
						return
					}
					if isCli {
						res.Probe("cli-panicked") // C01's business
						return
					}
					panic(r)
				}
			}()
			if isCli {
				kernel.SetBudget(100000)
				defer kernel.SetBudget(-1)
				runCliSandbox(text, sc.Config == "cli-c", sc.Flags)
				return
			}
			o := zy.Eval(env, text+" ", 100000)
			if o.Budget {
				res.Unbounded++
			}
			if o.OK() {
				res.Probe("call-succeeded")
			}
		}()
		var crossed []string
		for _, a := range verifos.Log {
			if isCli && a.Op == "os.Exit" {
				continue
			}
			if isCrossing(a.Op) {
				crossed = append(crossed, a.Op+"("+strings.ReplaceAll(strings.Join(a.Args, ","), realCanaryDir, canaryDir)+")")
			}
		}
		if exited != "" {
			crossed = append(crossed, exited)
		}
		if len(crossed) > 0 {
			ops := map[string]bool{}
			for _, a := range verifos.Log {
				if isCrossing(a.Op) && !(isCli && a.Op == "os.Exit") {
					ops[a.Op] = true
				}
			}
			var opl []string
			for o := range ops {
				opl = append(opl, o)
			}
			sort.Strings(opl)
			cfg := "bare"
			if strings.HasPrefix(sc.Config, "std") {
				cfg = "std"
			}
			if isCli {
				cfg = "cli"
			}
			fail(cfg+"|"+label+"|"+strings.Join(opl, "+"), "sandbox config %s: the script %q reached the outside world: %v", sc.Config, strings.ReplaceAll(text, realCanaryDir, canaryDir), crossed)
		}
		if msg := canaryIntact(); msg != "" {
			fail(label+"|canary", "sandbox config %s: after the script %q: %s", sc.Config, text, msg)
			setupCanary()
		}
	}
	if sc.Text != "" {
		res.Sig("text|" + sc.Config + "|" + sc.Name)
		run("script:"+sc.Name, sc.Text)
	}
	if len(sc.Texts) > 0 {
		// one interpreter for all texts: what an earlier evaluation defined must not open the wall for a later one
		res.Sig("texts|" + sc.Config + "|" + sc.Name)
		env, rootEnv := c08Env(sc.Config)
		verifos.Reset()
		for _, t := range sc.Texts {
			res.Execs++
			func() {
				defer func() {
					if r := recover(); r != nil {
						if ex, isExit := r.(verifos.ExitSentinel); isExit {
							verifos.Log = append(verifos.Log, verifos.Access{Op: "os.Exit(reached)", Args: []string{fmt.Sprint(ex.Code)}})
						}
					}
				}()
				zy.Eval(env, realPaths(t)+" ", 100000)
			}()
		}
		closeQuietly(rootEnv)
		var crossed []string
		ops := map[string]bool{}
		for _, a := range verifos.Log {
			if isCrossing(a.Op) {
				crossed = append(crossed, a.Op+"("+strings.ReplaceAll(strings.Join(a.Args, ","), realCanaryDir, canaryDir)+")")
				ops[a.Op] = true
			}
		}
		if len(crossed) > 0 {
			var opl []string
			for o := range ops {
				opl = append(opl, o)
			}
			sort.Strings(opl)
			fail("rebind|"+sc.Name+"|"+strings.Join(opl, "+"), "sandbox config %s: the evaluations %q, one after the other in one interpreter, reached the outside world: %v", sc.Config, sc.Texts, crossed)
		}
		if msg := canaryIntact(); msg != "" {
			fail("rebind|canary", "sandbox config %s: after the evaluations %q: %s", sc.Config, sc.Texts, msg)
			setupCanary()
		}
	}
	for _, c := range sc.Calls {
		res.Sig(fmt.Sprintf("%s|%s|%s", sc.Config, c.Name, c.Route))
		run(c.Name, c08Program(c))
	}
	res.Tracef("%s %d", sc.Config, len(sc.Calls))
	return res
}

// nameUniverse is read from the interpreter under test, not from a list of ours.
var nameUniverseCache = map[string][]string{}

func nameUniverse(config string) []string {
	if c, ok := nameUniverseCache[config]; ok {
		return c
	}
	out := nameUniverse1(config)
	nameUniverseCache[config] = out
	return out
}

func nameUniverse1(config string) []string {
	env, root := c08Env(config)
	defer closeQuietly(root)
	set := map[string]bool{}
	for _, n := range env.VerifGlobalNames() {
		set[n] = true
	}
	for _, n := range env.VerifBuiltinNames() {
		set[n] = true
	}
	for _, n := range env.VerifMacroNames() {
		set[n] = true
	}
	for _, n := range zygo.ReservedWords {
		set[n] = true
	}
	// special forms of the compiler's dispatch (need no binding at all) and names that exist in a non-sandboxed
	// interpreter: a sandbox must refuse them too
	full := zygo.NewZlisp()
	full.StandardSetup()
	for _, n := range full.VerifGlobalNames() {
		set[n] = true
	}
	closeQuietly(full)
	for _, n := range []string{"include", "package", "return", "source", "req", "import", "sys", "system", "macexpand", "syntaxQuote", "infixExpand"} {
		set[n] = true
	}
	var out []string
	for n := range set {
		if n == "" || strings.ContainsAny(n, " ()[]{}\"`;") {
			continue
		}
		out = append(out, n)
	}
	sort.Strings(out)
	return out
}

var c08Configs = []string{"bare", "std", "bare-dup", "std-dup", "std-clone", "bare-clone"}

// names whose evaluation with arbitrary arguments can block forever or is otherwise unsuitable (not outside-world primitives)
var c08Skip = map[string]bool{"<!": true, "send": true, "makeChan": true}

func genC08Names(r *kernel.RNG, tier string, i int) interface{} {
	cfg := c08Configs[i%len(c08Configs)]
	names := nameUniverse(cfg)
	k := i / len(c08Configs)
	per := 8
	lo := (k * per) % len(names)
	sc := &c08Scenario{Config: cfg}
	for j := 0; j < per; j++ {
		n := names[(lo+j)%len(names)]
		if c08Skip[n] {
			continue
		}
		for _, sh := range c08ArgShapes {
			route := "direct"
			if r.Chance(0.5) {
				route = r.Pick(c08Routes)
			}
			sc.Calls = append(sc.Calls, c08Call{Name: n, Args: sh, Route: route})
		}
	}
	return sc
}

// restrictedNames: what a full interpreter binds and a sandbox (with the standard setup) does not -
// exactly the names a sandbox must not be able to reach by any route, including as data
var restrictedCache []string

func restrictedNames() []string {
	if restrictedCache == nil {
		restrictedCache = restrictedNames1()
	}
	return restrictedCache
}

func restrictedNames1() []string {
	full := zygo.NewZlisp()
	full.StandardSetup()
	sb := zygo.NewZlispSandbox()
	sb.StandardSetup()
	have := map[string]bool{}
	for _, n := range sb.VerifGlobalNames() {
		have[n] = true
	}
	var out []string
	for _, n := range full.VerifGlobalNames() {
		if !have[n] && n != "" && !strings.ContainsAny(n, " ()[]{}\"`;") {
			out = append(out, n)
		}
	}
	closeQuietly(full)
	closeQuietly(sb)
	sort.Strings(out)
	return out
}

// genC08AsData: a restricted function *named as data* (string, quoted symbol, str2sym) handed to every
// callable of the sandbox: a name-resolving fallback anywhere must not reach past the sandbox's own table
func genC08AsData(r *kernel.RNG, tier string, i int) interface{} {
	cfgs := []string{"bare", "std", "std-dup"}
	cfg := cfgs[i%len(cfgs)]
	names := nameUniverse(cfg)
	f := names[(i/len(cfgs))%len(names)]
	sc := &c08Scenario{Config: cfg}
	if c08Skip[f] {
		return sc
	}
	for _, u := range restrictedNames() {
		arg := r.Pick([]string{fmt.Sprintf("[%q]", canaryFile), fmt.Sprintf("%q", canaryFile), fmt.Sprintf("[%q %q]", canaryEnv, "changed"), fmt.Sprintf("[\"echo pwned > %s/pwned\"]", canaryDir), fmt.Sprintf("[\"x\" %q]", canaryDir+"/new.txt")})
		form := r.Pick([]string{fmt.Sprintf("%q", u), "%" + u, "(quote " + u + ")", fmt.Sprintf("(str2sym %q)", u)})
		sc.Calls = append(sc.Calls, c08Call{Name: f, Args: form + " " + arg, Route: "direct"})
	}
	return sc
}

func c08AsDataCount(tier string) int {
	n := len(nameUniverse("std")) * 3
	if tier == "thorough" {
		return n * 3
	}
	return n
}

// genC08Sigils: script text that merely *names* something of the outside world - an environment variable or a
// path spelled as a symbol with the usual sigils - must not reach it either
func genC08Sigils(r *kernel.RNG, tier string, i int) interface{} {
	cfg := c08Configs[i%len(c08Configs)]
	sc := &c08Scenario{Config: cfg}
	stems := []string{canaryEnv, "HOME", "PATH", "USER", "PWD"}
	forms := []string{"$%s", "${%s}", "$(%s)", "@%s", "env.%s", "os.%s", "ENV.%s", "#%s", "?%s", "%%%s%%", "%s", ".%s", "$env.%s", "sys.%s"}
	for _, st := range stems {
		for _, f := range forms {
			sym := fmt.Sprintf(f, st)
			sc.Calls = append(sc.Calls, c08Call{Name: "begin", Args: sym, Route: "direct"})
			if r.Chance(0.5) {
				sc.Calls = append(sc.Calls, c08Call{Name: r.Pick([]string{"str", "defined?", "println", "len", "quote", "eval", "symnum", "type?"}), Args: r.Pick([]string{sym, fmt.Sprintf("%q", sym), "(quote " + sym + ")"}), Route: r.Pick(c08Routes)})
			}
		}
	}
	return sc
}

// cliBoolFlags: the tool's boolean switches, read from its own flag set (a new switch is picked up by itself).
// -trace is left out (it prints every instruction), the three fixed ones are always given.
func cliBoolFlags() []string {
	cfg := zygo.NewZlispConfig("zygo")
	cfg.DefineFlags()
	var out []string
	cfg.Flags.VisitAll(func(f *flag.Flag) {
		if b, isBool := f.Value.(interface{ IsBoolFlag() bool }); !isBool || !b.IsBoolFlag() {
			return
		}
		switch f.Name {
		case "sandbox", "no-liner", "quiet", "trace":
			return
		}
		out = append(out, f.Name)
	})
	sort.Strings(out)
	return out
}

// cliUniverse: the names bound in the interpreter that ReplMain -sandbox builds under the given further flags,
// read through the guarded hook before the tool evaluates anything
var cliUniverseCache = map[string][]string{}

func cliUniverse(extra []string) []string {
	key := strings.Join(extra, ",")
	if u, ok := cliUniverseCache[key]; ok {
		return u
	}
	set := map[string]bool{}
	zygo.VerifReplEnvHook = func(env *zygo.Zlisp) {
		for _, n := range env.VerifGlobalNames() {
			set[n] = true
		}
		for _, n := range env.VerifBuiltinNames() {
			set[n] = true
		}
		for _, n := range env.VerifMacroNames() {
			set[n] = true
		}
	}
	func() {
		defer func() { recover() }()
		savedPolicy := verifos.Policy
		verifos.Policy = denyAll
		defer func() { verifos.Policy = savedPolicy }()
		runCliSandbox("1", true, extra)
	}()
	zygo.VerifReplEnvHook = nil
	var out []string
	for n := range set {
		if n == "" || c08Skip[n] || strings.ContainsAny(n, " ()[]{}\"`;") {
			continue
		}
		out = append(out, n)
	}
	sort.Strings(out)
	cliUniverseCache[key] = out
	return out
}

// cliFlagSets: every subset of the boolean switches (a handful)
func cliFlagSets() [][]string {
	fl := cliBoolFlags()
	if len(fl) > 6 {
		fl = fl[:6]
	}
	var out [][]string
	for m := 0; m < 1<<len(fl); m++ {
		var s []string
		for i, f := range fl {
			if m&(1<<i) != 0 {
				s = append(s, f)
			}
		}
		out = append(out, s)
	}
	return out
}

// genC08Rebind: a script first binds the name of something restricted (or of anything the guards might look up) to a
// harmless value of its own, then, in later evaluations of the same interpreter, tries the restricted forms
func genC08Rebind(r *kernel.RNG, tier string, i int) interface{} {
	cfgs := []string{"bare", "std", "std-dup", "bare-clone"}
	cfg := cfgs[i%len(cfgs)]
	pool := append(append([]string{}, restrictedNames()...), "source", "include", "req", "import", "sys", "system", "sandboxed", "sandbox", "readf", "owritef", "getenv", "exit")
	n := pool[(i/len(cfgs))%len(pool)]
	sc := &c08Scenario{Config: cfg, Name: n}
	sc.Texts = append(sc.Texts, r.Pick([]string{"(defn %s [p] p)", "(def %s 1)", "(def %s (fn [& a] a))", "(defmac %s [p] p)", "(def %s true)"}))
	sc.Texts[0] = fmt.Sprintf(sc.Texts[0], n)
	probes := []string{
		fmt.Sprintf("(include %q)", canaryFile), fmt.Sprintf("(source %q)", canaryFile), fmt.Sprintf("(%s %q)", n, canaryFile), "(req secret)",
		fmt.Sprintf("(import %q)", canaryFile), fmt.Sprintf("(system \"echo pwned > %s/pwned\")", canaryDir), "(sys echo hi)", fmt.Sprintf("(getenv %q)", canaryEnv),
		fmt.Sprintf("(readf %q)", canaryFile), fmt.Sprintf("(owritef %q \"x\")", canaryDir+"/new.txt"), fmt.Sprintf("(eval (quote (include %q)))", canaryFile), "(exit 3)",
	}
	sc.Texts = append(sc.Texts, probes...)
	return sc
}

var c08DotCommands = []string{".cd @CANARYDIR@", ".cd /", ".dump", ".dump car", ".ls", ".gls", ".verb", ".debug", ".undebug", ".quit", ".cd", ".help"}

// genC08Cli: lines for the tool's sandbox REPL: its dot-commands, outside-world names with canary arguments, restricted names
func genC08Cli(r *kernel.RNG, tier string, i int) interface{} {
	cfg := "cli"
	if i%3 == 2 {
		cfg = "cli-c"
	}
	names := nameUniverse("std")
	restricted := restrictedNames()
	sets := cliFlagSets()
	flags := sets[(i/3)%len(sets)]
	// what this flag set binds beyond the plain sandbox with the standard setup
	// (relative to what the sandbox itself binds, not to the wider universe that also holds the restricted names)
	base := map[string]bool{}
	for _, n := range cliUniverse(nil) {
		base[n] = true
	}
	var extraNames []string
	for _, n := range cliUniverse(flags) {
		if !base[n] {
			extraNames = append(extraNames, n)
		}
	}
	var lines []string
	next := i * 7 // walks the extra names round and round across scenarios
	for j := 0; j < 12; j++ {
		k := r.Intn(5)
		if len(extraNames) > 0 && r.Chance(0.6) {
			k = 5
		}
		switch k {
		case 5:
			lines = append(lines, "("+extraNames[next%len(extraNames)]+" "+r.Pick(c08ArgShapes)+")")
			next++
		case 0:
			lines = append(lines, r.Pick(c08DotCommands))
		case 1:
			lines = append(lines, "("+r.Pick(restricted)+" "+r.Pick(c08ArgShapes)+")")
		case 2:
			lines = append(lines, "("+names[r.Intn(len(names))]+" "+r.Pick(c08ArgShapes)+")")
		case 3:
			lines = append(lines, r.Pick([]string{"& 1", "* 1", "(include \"" + canaryFile + "\")", "(sys echo hi)", "(req secret)", "(import \"" + canaryFile + "\")", "(exit 3)", "$" + canaryEnv}))
		case 4:
			lines = append(lines, "(+ 1 2)")
		}
	}
	sc := &c08Scenario{Config: cfg, Name: "cli-lines", Flags: flags}
	if cfg == "cli-c" {
		sc.Text = strings.Join(lines, " ")
	} else {
		sc.Text = strings.Join(lines, "\n") + "\n"
	}
	return sc
}

func c08NameCount(tier string) int {
	n := len(nameUniverse("std"))
	per := 8
	blocks := (n + per - 1) / per
	if tier == "thorough" {
		return blocks * len(c08Configs) * 3
	}
	return blocks * len(c08Configs)
}

func genC08Corpus(r *kernel.RNG, tier string, i int) interface{} {
	cs, names := corpus()
	j := i % len(cs)
	cfg := c08Configs[(i/len(cs))%len(c08Configs)]
	text := cs[j]
	if strings.Contains(text, "makeChan") {
		text = "(+ 1 2)"
	}
	// whole script, or a damaged variant (chunks dropped) so that forms appear in new contexts
	if r.Chance(0.5) {
		lines := strings.SplitAfter(text, "\n")
		var keep []string
		for _, l := range lines {
			if !r.Chance(0.2) {
				keep = append(keep, l)
			}
		}
		text = strings.Join(keep, "")
	}
	return &c08Scenario{Config: cfg, Text: text, Name: names[j]}
}

func shrinkC08(body json.RawMessage) []json.RawMessage {
	var sc c08Scenario
	if json.Unmarshal(body, &sc) != nil {
		return nil
	}
	var out []json.RawMessage
	emit := func(s c08Scenario) {
		b, _ := json.Marshal(s)
		out = append(out, b)
	}
	n := len(sc.Calls)
	for _, chunk := range []int{n / 2, n / 4, n / 8, 1} {
		if chunk < 1 {
			continue
		}
		for i := 0; i+chunk <= n; i += chunk {
			s := sc
			s.Calls = append(append([]c08Call{}, sc.Calls[:i]...), sc.Calls[i+chunk:]...)
			emit(s)
		}
	}
	for i, c := range sc.Calls {
		if c.Route != "direct" {
			s := sc
			s.Calls = append([]c08Call{}, sc.Calls...)
			s.Calls[i].Route = "direct"
			emit(s)
		}
	}
	if sc.Text != "" {
		for _, t := range shrinkText(sc.Text, 40) {
			s := sc
			s.Text = t
			emit(s)
		}
	}
	if strings.Contains(sc.Config, "-") {
		s := sc
		s.Config = sc.Config[:strings.Index(sc.Config, "-")]
		emit(s)
	}
	return out
}

func init() {
	kernel.RegisterWarmup(func() {
		for _, c := range c08Configs {
			nameUniverse(c)
		}
		restrictedNames()
	})
	kernel.RegisterWarmupFor("C08", func() {
		for _, fs := range cliFlagSets() {
			cliUniverse(fs)
		}
	})
	kernel.Register(&kernel.Plan{
		Property: "C08",
		Level:    "exploration",
		Rule: "name universe read from the interpreter under test (every global, builtin and macro of a sandboxed and of a full interpreter, every reserved word and compiler special form) x 16 argument shapes (canary file paths as string/symbol/backtick/array/list, shell command strings, environment names, integers) " +
			"x call routes (direct, alias, apply, map, eval of a quoted call, macro-wrapped, infix call syntax, threading, package member) x configurations; every callable additionally receives each restricted function (bound in a full interpreter, absent from the sandbox) named as data (string, quoted symbol, str2sym); {bare sandbox, sandbox+StandardSetup, each also as Duplicate and Clone}; plus whole and damaged corpus scripts run under each sandbox configuration. " +
			"Oracle: the access log of the outside-world seam (complete for package zygo by type resolution) contains no file, process, environment or exit operation, and real canaries are intact. distinct_nontrivial counts distinct (configuration, name, route) triples.",
		Components: map[string][]string{
			"real": {"sandbox constructor, StandardSetup, every builtin/builder/macro/special form reachable from script text"},
			"stub": {"operating system: os, os/exec, io/ioutil, syscall, net function uses in package zygo redirected to logging shims (policy: deny everything; os.Exit becomes a recoverable sentinel)"},
		},
		Assume: []string{
			"dependencies of package zygo are not instrumented; a real canary file, directory and environment variable are checked as a second line of defence",
			"os.Getwd and ioutil.ReadAll on an already open reader are logged but not counted as crossings",
			"cmd/zygo -sandbox is exercised in process: ReplMain -sandbox -no-liner with the script on stdin (dot-commands included) or via -c; the tool's own os.Exit at end of input is not counted",
		},
		Parts: []*kernel.Part{
			{Name: "names", Count: c08NameCount, Generate: genC08Names, Execute: execC08, Shrink: shrinkC08},
			{Name: "cli", Count: func(tier string) int {
				if tier == "thorough" {
					return 900
				}
				return 90
			}, Generate: genC08Cli, Execute: execC08, Shrink: shrinkC08, Isolated: true},
			{Name: "rebind", Count: func(tier string) int {
				n := (len(restrictedNames()) + 12) * 4
				if tier == "thorough" {
					return n * 3
				}
				return n
			}, Generate: genC08Rebind, Execute: execC08, Shrink: shrinkC08},
			{Name: "sigils", Count: func(tier string) int {
				if tier == "thorough" {
					return 60
				}
				return 12
			}, Generate: genC08Sigils, Execute: execC08, Shrink: shrinkC08},
			{Name: "names-as-data", Count: c08AsDataCount, Generate: genC08AsData, Execute: execC08, Shrink: shrinkC08},
			{Name: "corpus", Count: func(tier string) int {
				if tier == "thorough" {
					return 1500
				}
				return 300
			}, Generate: genC08Corpus, Execute: execC08, Shrink: shrinkC08},
		},
	})
}
