//go:build verif_maporder && verif_oswall

package eng

import (
	"strconv"
	"encoding/json"
	"fmt"
	"path/filepath"
	"regexp"
	"strings"
	"time"

	"verifsim/kernel"
	"verifsim/zy"

	"github.com/glycerine/zygomys/v9/zygo"
	"github.com/glycerine/zygomys/v9/zygo/verifmap"
	"github.com/glycerine/zygomys/v9/zygo/verifos"
)

// Engine `maporder`, C20: Go's map iteration order — the one true source of
// run-to-run nondeterminism in the library — is put behind a seam (source
// rewriting of the scratch copy) and driven by the simulator. One scenario is
// one OS process.

type orderSpec struct {
	Kind string `json:"kind"` // canonical reverse rotate random
	Arg  uint64 `json:"arg,omitempty"`
}

type histStep struct {
	Kind string `json:"kind"` // new sandbox new-std sandbox-std dup clone close
}

type c20Scenario struct {
	Name    string      `json:"name"`
	Program []string    `json:"program"` // texts evaluated in order in one fresh interpreter
	Demo    bool        `json:"demo,omitempty"`
	Orders  []orderSpec `json:"orders"`
	History [][]histStep `json:"history"` // per order: interpreters created earlier in the process
	Budget  int64       `json:"budget"`
	// NativeConfirm: child mode of the soundness guard - run the program natively N times in fresh interpreters of
	// this fresh process and report a violation iff at least two distinct outcomes are seen
	NativeConfirm bool `json:"native_confirm,omitempty"`
}

func applyOrder(o orderSpec) {
	verifmap.Native = false
	verifmap.Hits = map[int]int{}
	verifmap.Multi = map[int]int{}
	switch o.Kind {
	case "canonical":
		verifmap.Order = nil
	case "reverse":
		verifmap.Order = func(site, occ, n int) []int {
			p := make([]int, n)
			for i := range p {
				p[i] = n - 1 - i
			}
			return p
		}
	case "rotate":
		verifmap.Order = func(site, occ, n int) []int {
			p := make([]int, n)
			for i := range p {
				p[i] = (i + int(o.Arg) + site) % n
			}
			return p
		}
	case "random":
		verifmap.Order = func(site, occ, n int) []int {
			return kernel.NewRNG(o.Arg, uint64(site), uint64(occ), uint64(n)).Perm(n)
		}
	case "native":
		verifmap.Native = true
		verifmap.Order = nil
	}
}

var demoRegistered bool

type c20Out struct {
	Outs   []string
	Stdout string
	Budget bool
	Panic  string
}

func (o c20Out) key() string {
	return maskAddrs(strings.Join(o.Outs, "\x00") + "\x01" + o.Stdout + "\x01" + o.Panic)
}

// pointer printing is exempted by the property: addresses are masked before comparing
var reAddr = regexp.MustCompile(`0x[0-9a-fA-F]{6,}`)
var reByteDump = regexp.MustCompile(`\[\]byte\{(?:0x[0-9a-f]{1,2}(?:, )?)+\}`)

// maskAddrs: addresses are masked where they are printed as text and where that text was dumped byte by byte
// (an encoded pointer: (json (& x)) is the pointer's printed form as bytes)
func maskAddrs(s string) string {
	s = reByteDump.ReplaceAllStringFunc(s, func(d string) string {
		var b []byte
		for _, h := range regexp.MustCompile(`0x([0-9a-f]{1,2})`).FindAllStringSubmatch(d, -1) {
			v, _ := strconv.ParseUint(h[1], 16, 8)
			b = append(b, byte(v))
		}
		if reAddr.Match(b) {
			return "[]byte(" + reAddr.ReplaceAllString(string(b), "0x#") + ")"
		}
		return d
	})
	return reAddr.ReplaceAllString(s, "0x#")
}

// readOnlyPolicy: scripts may read files under the scratch copy of the repository; nothing else.
func readOnlyPolicy(root string) func(op string, args []string) bool {
	return func(op string, args []string) bool {
		switch op {
		case "os.Open", "os.Stat", "io/ioutil.ReadAll", "os.Getwd":
			if len(args) == 0 || op == "io/ioutil.ReadAll" {
				return true
			}
			p := args[0]
			if !filepath.IsAbs(p) {
				return !strings.Contains(p, "..")
			}
			return strings.HasPrefix(filepath.Clean(p), root)
		}
		return false
	}
}

func runHistoryPrefix(h []histStep) {
	var last *zygo.Zlisp
	for _, s := range h {
		switch s.Kind {
		case "new":
			last = zygo.NewZlisp()
		case "sandbox":
			last = zygo.NewZlispSandbox()
		case "new-std":
			last = zygo.NewZlisp()
			last.StandardSetup()
		case "sandbox-std":
			last = zygo.NewZlispSandbox()
			last.StandardSetup()
		case "dup":
			if last != nil {
				last = last.Duplicate()
			}
		case "clone":
			if last != nil {
				last = last.Clone()
			}
		case "close":
			if last != nil {
				closeQuietly(last)
				last = nil
			}
		}
	}
}

func c20RunOnce(sc *c20Scenario, res *kernel.Result) c20Out {
	var out c20Out
	verifos.Reset()
	if sc.Demo && !demoRegistered {
		zygo.RegisterDemoStructs()
		demoRegistered = true
	}
	env := zygo.NewZlisp()
	env.StandardSetup()
	if sc.Demo {
		env.ImportDemoData()
	}
	defer closeQuietly(env)
	for _, t := range sc.Program {
		res.Execs++
		var o zy.Outcome
		func() {
			defer func() {
				if r := recover(); r != nil {
					if ex, isExit := r.(verifos.ExitSentinel); isExit {
						out.Panic = fmt.Sprintf("exit(%d)", ex.Code)
						return
					}
					panic(r)
				}
			}()
			o = zy.Eval(env, t+" ", sc.Budget)
		}()
		if o.Budget {
			out.Budget = true
			return out
		}
		if out.Panic != "" {
			break
		}
		if o.Panicked {
			out.Panic = "panic@" + o.Site + ": " + maskPanic(o.PanicMsg)
			break
		}
		// error texts are compared in full, except what follows "stack trace:" (goroutine ids, addresses)
		s := o.String()
		if o.Kind() == "err" {
			s = "<err: " + maskTrace(o.Err.Error()) + ">"
		}
		out.Outs = append(out.Outs, s)
		if o.Kind() == "err" {
			env.Clear()
		}
	}
	out.Stdout = verifos.Output()
	return out
}

func maskTrace(s string) string {
	if i := strings.Index(s, "stack trace:"); i >= 0 {
		s = s[:i] + "stack trace:<masked>"
	}
	return s
}

func maskPanic(s string) string { return s }

func execC20(body json.RawMessage) *kernel.Result {
	var sc c20Scenario
	res := &kernel.Result{}
	if err := json.Unmarshal(body, &sc); err != nil {
		res.Violate("", "harness", "bad-scenario", err.Error())
		return res
	}
	if sc.Budget == 0 {
		sc.Budget = 500000
	}
	root := filepath.Dir(corpusDir())
	verifos.Policy = readOnlyPolicy(root)
	if err := osChdir(root); err != nil {
		res.Violate("", "harness", "chdir", err.Error())
		return res
	}
	fail := func(clause, site, f string, a ...interface{}) {
		res.Violate("C20", "C20."+clause, site, fmt.Sprintf(f, a...))
	}
	if sc.NativeConfirm {
		applyOrder(orderSpec{Kind: "native"})
		seen := map[string]int{}
		var keys []string
		deadline := time.Now().Add(4 * time.Second)
		n := 0
		for n < 400 && (n < 30 || time.Now().Before(deadline)) {
			out := c20RunOnce(&sc, res)
			if out.Budget {
				break
			}
			k := showOut(out)
			if seen[k] == 0 {
				keys = append(keys, k)
			}
			seen[k]++
			n++
			if len(seen) >= 2 && n >= 20 {
				break
			}
		}
		if len(seen) >= 2 {
			first, second := keys[0], keys[1]
			fail("D-same", siteName(sc.Name), "program %q: %d native runs in fresh interpreters of a fresh process gave %d distinct outcomes, e.g. (run 1) %s  |vs|  %s", sc.Name, n, len(seen), trunc(first, 300), trunc(second, 300))
		}
		return res
	}
	var first c20Out
	var firstDesc string
	candidate := ""
	siteHits := map[int]bool{}
	for i, o := range sc.Orders {
		if i < len(sc.History) {
			runHistoryPrefix(sc.History[i])
		}
		applyOrder(o)
		out := c20RunOnce(&sc, res)
		for s := range verifmap.Hits {
			siteHits[s] = true
			res.Sig(fmt.Sprintf("site%d|%s", s, o.Kind))
		}
		// reach: which range sites were walked over two or more keys under a driven order (the "fault" of this engine)
		for s, n := range verifmap.Multi {
			if o.Kind != "canonical" && n > 0 {
				res.Fault("order-driven@" + verifmap.Sites[s])
			}
		}
		res.Probe(fmt.Sprintf("range-sites-behind-the-seam=%d", len(verifmap.Sites)))
		if out.Budget {
			res.Unbounded++
			applyOrder(orderSpec{Kind: "native"})
			return res
		}
		desc := fmt.Sprintf("order %d (%s/%d, %d earlier interpreters)", i, o.Kind, o.Arg, histLen(sc.History, i))
		if i == 0 {
			first, firstDesc = out, desc
			continue
		}
		if out.key() != first.key() && candidate == "" {
			candidate = fmt.Sprintf("%s gives %s; %s gives %s", firstDesc, showOut(first), desc, showOut(out))
			res.Probe("candidate")
		}
	}
	res.Tracef("%s -> %s", sc.Name, first.key())
	if candidate == "" {
		applyOrder(orderSpec{Kind: "native"})
		return res
	}
	// Soundness guard: the seam explores every order the Go specification allows, the running runtime
	// realises fewer. Report only what the unmodified runtime can exhibit: re-run natively, in fresh interpreters
	// of a FRESH process (so that "first interpreter of the process" is among the runs compared).
	applyOrder(orderSpec{Kind: "native"})
	conf := sc
	conf.NativeConfirm = true
	cb, _ := json.Marshal(conf)
	child := kernel.RunChild(&kernel.Scenario{Property: "C20", Part: c20PartOf(sc.Name), Body: cb})
	confirmed := false
	for _, v := range child.Violations {
		if v.Clause == "C20.D-same" {
			confirmed = true
			res.Violate("C20", v.Clause, v.Site, v.Detail+" Simulated schedules: "+trunc(candidate, 500))
		}
	}
	res.Execs += child.Execs
	if !confirmed {
		res.Probe("spec_level_only")
	}
	return res
}

func c20PartOf(name string) string {
	switch {
	case strings.HasPrefix(name, "generated-"):
		return "generated"
	case strings.HasSuffix(name, ".zy"):
		return "corpus"
	}
	return "targeted"
}

func trunc2(s string, n int) string { return trunc(s, n) }

func histLen(h [][]histStep, i int) int {
	n := 0
	for j := 0; j <= i && j < len(h); j++ {
		n += len(h[j])
	}
	return n
}

func showOut(o c20Out) string {
	return maskAddrs(fmt.Sprintf("values=%q stdout=%q %s", o.Outs, trunc(o.Stdout, 200), o.Panic))
}

func siteName(n string) string {
	if strings.HasPrefix(n, "generated-") {
		return "generated"
	}
	return n
}

// siteOfDiff: a stable, coarse description of where two outcomes differ (first differing token class)
func siteOfDiff(keys []string) string {
	a, b := keys[0], keys[1]
	i := 0
	for i < len(a) && i < len(b) && a[i] == b[i] {
		i++
	}
	lo := i - 25
	if lo < 0 {
		lo = 0
	}
	ctx := a[lo:i]
	// keep only letters so that numbers/addresses do not split classes
	var sb strings.Builder
	for _, c := range ctx {
		if (c >= 'a' && c <= 'z') || (c >= 'A' && c <= 'Z') {
			sb.WriteRune(c)
		}
	}
	s := sb.String()
	if len(s) > 12 {
		s = s[len(s)-12:]
	}
	return "diff-after:" + s
}

// ---- generation

var c20Exclude = []string{"(random", "(now", "(millis", "(timeit", "_closdump", "(_ls", "makeChan", "(system", "(exit", "(sys ", "(getenv", "(setenv", "(slurpf", "(owritef", "(writef", "(save", "(bsave", "(bload", "(gob", "(stop", "(sleep"}

var targetedC20 = []struct {
	name string
	demo bool
	prog []string
}{
	{"symnum-builtins", false, []string{"(symnum %car)", "(symnum %hset)", "(< (symnum %car) (symnum %cdr))"}},
	{"pretty-toggle", false, []string{"(str (concat [1 2] [3 4]))", "(pretty true)", "(str (concat [1 2] [3 4]))", "(str (hash a: [1 2] b: (concat [1] [2])))", "(pretty false)", "(str (concat [5] [6]))"}},
	{"pretty-left-on", false, []string{"(str (concat [1 2] [3 4]))", "(str [1 [2 3]])", "(str (hash a: 1))", "(pretty true)", "(str (concat [1 2] [3 4]))"}},
	{"settings-left-on", false, []string{"(str (concat [1] [2]))", "(echo false)", "(pretty true)", "(str (list 1 [2] (hash a: (concat [3] [4]))))"}},
	{"deref-copy-order", false, []string{"(struct Rc [(field f1: int64 e:0) (field f2: int64 e:1) (field f3: int64 e:2) (field f4: int64 e:3) (field f5: int64 e:4) (field f6: int64 e:5) (field f7: int64 e:6) (field f8: int64 e:7) (field f9: int64 e:8)])", "(def ra (Rc f1: 1 f2: 2 f3: 3 f4: 4 f5: 5 f6: 6 f7: 7 f8: 8 f9: 9))", "(def rb (Rc f1: 0))", "(def pb (& rb))", "(derefSet pb ra)", "(str rb)", "(keys rb)", "(json rb)"}},
	{"symnum-types", false, []string{"(symnum %rune)", "(symnum %int64)", "(symnum %string)", "(< %int64 %string)", "(< %rune %float64)", "(symnum %uint8)", "(symnum %error)"}},
	{"togo-unknown-fields", true, []string{"(def wbad (weather type: \"x\"))", "(hset wbad nosuch1: 1)", "(hset wbad nosuch2: 2)", "(hset wbad nosuch3: 3)", "(hset wbad nosuch4: 4)", "(togo wbad)", "(str wbad)", "(json wbad)"}},
	{"symbol-order", false, []string{"(< %car %cdr)", "(sort (fn [a b] (< a b)) [%hset %hget %car %cdr %len])", "(str (hash car:1 cdr:2))"}},
	{"togo-weather", true, []string{"(def w (weather type:\"sunny\" size:3))", "(togo w)", "(str w)", "(str (fromgo (togo w)))"}},
	{"method-snoopy", true, []string{"(def s (snoopy cry:\"yo\"))", "(_method s Fly: (weather type:\"ok\"))", "(_method s EchoWeather: (weather type:\"x\" size:9))"}},
	{"methodls", true, []string{"(methodls (snoopy))", "(fieldls (snoopy))", "(methodls (weather))"}},
	{"json-roundtrip", false, []string{"(def h (hash a:1 b:\"two\" c:[1 2 3] d:(hash x:1 y:2 z:3 w:4 v:5 u:6 t:7 s:8 r:9)))", "(json h)", "(str (unjson (json h)))", "(str (unmsgpack (msgpack h)))"}},
	{"json-wide", false, []string{"(def h (hash k1:1 k2:2 k3:3 k4:4 k5:5 k6:6 k7:7 k8:8 k9:9 k10:10 k11:11 k12:12))", "(str (unjson (json h)))", "(keys (unjson (json h)))"}},
	{"json-foreign", false, []string{`(def fj (unjson (raw "{\"kiwi\":1, \"apple\":2, \"mango\":3, \"fig\":4, \"lime\":5, \"pear\":6, \"plum\":7, \"date\":8, \"yuzu\":9, \"nut\":10, \"oat\":11}")))`, "(str fj)", "(keys fj)", "(json fj)", "(hpair fj 0)"}},
	{"json-foreign-nested", false, []string{`(def fn2 (unjson (raw "{\"outer\":{\"k1\":1,\"k2\":2,\"k3\":3,\"k4\":4,\"k5\":5,\"k6\":6,\"k7\":7,\"k8\":8,\"k9\":9,\"k10\":10}, \"list\":[{\"a\":1,\"b\":2,\"c\":3,\"d\":4,\"e\":5,\"f\":6,\"g\":7,\"h\":8,\"i\":9}], \"z\":0, \"y\":1, \"x\":2, \"w\":3, \"v\":4, \"u\":5, \"t\":6}")))`, "(str fn2)", "(str (unmsgpack (msgpack fn2)))"}},
	// member names that tie under a coarser order than their spelling (numeric value, case, surrounding blanks, length)
	{"json-foreign-twins", false, []string{`(def ft (unjson (raw "{\"1\":1, \"01\":2, \"+1\":3, \"001\":4, \"1.0\":5, \"ab\":6, \"AB\":7, \"Ab\":8, \"aB\":9, \" a\":10, \"a \":11, \"a\":12, \"-0\":13, \"0\":14, \"00\":15}")))`, "(str ft)", "(keys ft)", "(json ft)", "(hpair ft 0)", "(str (unmsgpack (msgpack ft)))"}},
	{"msgpack-foreign-twins", false, []string{`(def fu (unmsgpack (msgpack (unjson (raw "{\"7\":1, \"07\":2, \"+7\":3, \"007\":4, \"x\":5, \"X\":6, \"7 \":8, \" 7\":9}")))))`, "(str fu)", "(keys fu)", "(json fu)"}},
	{"msgpack-foreign", false, []string{`(def fm (unmsgpack (msgpack (unjson (raw "{\"q1\":1,\"q2\":2,\"q3\":3,\"q4\":4,\"q5\":5,\"q6\":6,\"q7\":7,\"q8\":8,\"q9\":9,\"q10\":10}")))))`, "(str fm)", "(keys fm)"}},
	{"hash-wide", false, []string{"(def hw (hash))", "(for [(def i 0) (< i 20) (def i (+ i 1))] (hset hw (str2sym (concat \"k\" (str i))) i))", "(str hw)", "(keys hw)", "(json hw)", "(str (unjson (json hw)))"}},
	{"macro-names", false, []string{"(defmac sw [a b] ^(let [tmp ~a] (set ~a ~b) (set ~b tmp)))", "(def x 1) (def y 2)", "(sw x y)", "(str (list x y))", "(str (macexpand (sw x y)))"}},
	{"gensym-visible", false, []string{"(str (gensym))", "(str (gensym \"pfx\"))", "(defmac gm [] (let [g (gensym)] ^(quote ~g)))", "(str (gm))"}},
	{"near-miss-field", false, []string{"(struct Lim [(field limit1: int64 e:0) (field limit2: int64 e:1) (field limit3: int64 e:2) (field limit4: int64 e:3) (field limit5: int64 e:4) (field limit6: int64 e:5) (field limit7: int64 e:6) (field limit8: int64 e:7) (field limit9: int64 e:8)])", "(def lm (Lim limit1: 1))", "(hset lm limit: 5)", "(Lim limit: 1)", "{lm.limit = 3}", "(hget lm limit:)"}},
	{"near-miss-names", false, []string{"(defn fooa1 [] 1) (defn fooa2 [] 2) (defn fooa3 [] 3) (defn fooa4 [] 4) (defn fooa5 [] 5) (defn fooa6 [] 6) (defn fooa7 [] 7) (defn fooa8 [] 8) (defn fooa9 [] 9)", "(fooa)", "fooa", "(func typd [aa1:int64 aa2:int64 aa3:int64 aa4:int64 aa5:int64 aa6:int64 aa7:int64 aa8:int64 aa9:int64] [n:int64] (return 1))", "(typd aa:1)", "(def hz (hash k1:1 k2:2 k3:3 k4:4 k5:5 k6:6 k7:7 k8:8 k9:9))", "(hget hz k:)", "(:k hz)"}},
	{"literal-mutation", false, []string{`(def sad "sad")`, "(def p (& sad))", `(derefSet p "glad")`, `(str "sad")`, `(str sad)`, "(def one 1)", "(def p1 (& one))", "(derefSet p1 2)", "(+ 1 0)", `(concat "sad" "!")`}},
	{"str-scopes", false, []string{"(def a 1) (def b 2) (def c 3)", "(let [x 1 y 2 z 3] (str (hash p:x q:y r:z)))"}},
	{"package-print", false, []string{"(def p (package \"pp\" { A := 1; B := 2; C := 3; D := 4 }))", "(str p)", "p.A"}},
	{"typelist", false, []string{"(len (typelist))", "(str (typelist))"}},
	// what one run registers in the process-wide type registry (declared structs, the slice and pointer types derived
	// from them) must not show in the next run of the same program
	{"typelist-after-declarations", false, []string{"(def tn (len (typelist)))", "(struct Tl1 [(field p: (* Tl1)) (field q: ([]Tl1))])", "(def tv (Tl1))", "(str [tn (len (typelist))])"}},
	{"struct-named-like-a-builtin-type", false, []string{"(struct Zb9 [(field n: int64) (field s: string)])", "(str (Zb9 n: 1 s: \"x\"))", "(type? 1)", "(type? \"s\")", "(struct int64 [(field a: string)])", "(struct string)"}},
	// names that differ only in case (any ordering of names must still be total), in every listing of names
	{"case-twin-names", false, []string{"(def ab 1) (def Ab 2) (def AB 3) (def aB 4)", "(def pk (package \"ct\" { Xy := 1; xY := 2; XY := 3; xy := 4; Ab := 5; aB := 6 }))", "(str pk)",
		"(def cl (let [qa 1 Qa 2 QA 3 qA 4] (fn [] (+ qa Qa QA qA))))", "(str cl)", "(str (hash xy: 1 Xy: 2 xY: 3 XY: 4))", "(struct Ct1 [(field ab: int64) (field Ab: int64) (field AB: int64) (field aB: int64)])", "(str (Ct1 ab: 1 Ab: 2 AB: 3 aB: 4))",
		"(defn fct [] (let [za 1 Za 2 zA 3 ZA 4] (_closdump (fn [] za))))"}},
	// output that does not end in a newline belongs to the interpreter that wrote it
	{"print-without-newline", false, []string{"(print \"count: \")", "(println 3)", "(printf \"%v and \" 4)", "(println \"more\")", "(print \"done\")"}},
	// what a builtin returns belongs to the caller: changing it must not show in later calls or later interpreters
	{"change-what-builtins-return", true, []string{"(def sn (snoopy cry: \"a\"))", "(def ml (methodls sn))", "(cond (> (len ml) 0) (aset ml 0 \"changed\") nil)", "(str (methodls (snoopy)))",
		"(def fl (fieldls sn))", "(cond (> (len fl) 0) (aset fl 0 \"changed\") nil)", "(str (fieldls (snoopy)))", "(str (_method sn NoSuchMethod:))",
		"(def hk (keys (hash a: 1 b: 2)))", "(aset hk 0 (quote zz))", "(str (keys (hash a: 1 b: 2)))"}},
	{"defmap-then-struct", false, []string{"(defmap Dl1)", "(def dr (Dl1 a: 1))", "(struct Dl1 [(field b: string)])", "(str dr)"}},
	{"compare-records", false, []string{
		"(def ra (hash a: 1 b: \"x\" c: [1 2] d: 2.5 e: true f: 7 g: 8 h: 9))", "(def rb (hash a: 2 b: 3 c: \"y\" d: (hash) e: nil f: 6 g: 9 h: 1))",
		"(str (== ra rb))", "(str (< ra rb))", "(str (> ra rb))", "(str (!= ra rb))", "(str (== [ra] [rb]))", "(str (< (list ra 1) (list rb 0)))",
		"(struct Cr1 [(field a: int64) (field b: string) (field c: float64) (field d: bool)])", "(def ca (Cr1 a: 1 b: \"x\" c: 1.5 d: true))", "(def cb (Cr1 a: 2 b: \"y\" c: 2.5 d: false))",
		"(str (== ca cb))", "(str (< ca cb))", "(str (== ca ca))", "(str (< cb ca))"}},
	{"names-after-declarations", false, []string{"(def before (defined? \"Nm1\"))", "(struct Nm1 [(field p: (* Nm1)) (field q: ([]int64))])", "(def nv (Nm1 q: [1 2]))", "(str [before (symnum (quote freshlyInterned)) (< (quote int64) (quote zzfresh))])"}},
	{"struct-decl", false, []string{"(struct Car [(field Id: int64 e:0) (field Name: string e:1)])", "(def c (Car Id: 1 Name: \"x\"))", "(str c)", "(json c)", "(str (unjson (json c)))"}},
	{"defmap-record", false, []string{"(defmap ranch)", "(def r (ranch a:1 b:2 c:3 d:4 e:5 f:6 g:7 h:8 i:9))", "(str r)", "(json r)", "(str (unjson (json r)))"}},
	{"nested-demo", true, []string{"(def n (nestouter inner:(nestinner hello:\"hi\")))", "(str (togo n))", "(str n)"}},
	{"plane", true, []string{"(def he (hellcat speed:567 weather:(weather type:\"w\") friends:[(snoopy cry:\"a\") (hornet)]))", "(str (togo he))", "(str he)"}},
	{"gensym-names", false, []string{"(gensym)", "(str (fn [a] a))", "(defn ff [x] x)", "(str ff)"}},
	{"error-text", false, []string{"(undefinedThing 1)", "(+ 1 \"a\")", "(hget (hash a:1) b:)"}},
	{"println-order", false, []string{"(def h (hash a:1 b:2 c:3 d:4 e:5 f:6 g:7 h:8 i:9 j:10))", "(range k v h (println k v))"}},
	{"scope-show", false, []string{"(def zz1 1) (def zz2 2)", "(defn show [] (let [q 1 r 2 s 3 t 4 u 5 v 6 w 7 x 8 y 9] (+ q r)))", "(show)"}},
}

func genOrders(r *kernel.RNG, n int) ([]orderSpec, [][]histStep) {
	orders := []orderSpec{{Kind: "canonical"}, {Kind: "reverse"}}
	for len(orders) < n {
		switch r.Intn(3) {
		case 0:
			orders = append(orders, orderSpec{Kind: "rotate", Arg: uint64(r.Range(1, 7))})
		default:
			orders = append(orders, orderSpec{Kind: "random", Arg: r.Uint64() % 1000000})
		}
	}
	hist := make([][]histStep, len(orders))
	kinds := []string{"new", "sandbox", "new-std", "sandbox-std", "dup", "clone", "close"}
	for i := range hist {
		if r.Chance(0.5) {
			for j, m := 0, r.Intn(4); j < m; j++ {
				hist[i] = append(hist[i], histStep{Kind: r.Pick(kinds)})
			}
		}
	}
	return orders, hist
}

func genC20Corpus(r *kernel.RNG, tier string, i int) interface{} {
	cs, names := corpus()
	// deterministic walk over eligible scripts
	var elig []int
	for j, c := range cs {
		ok := true
		for _, x := range c20Exclude {
			if strings.Contains(c, x) {
				ok = false
			}
		}
		if ok {
			elig = append(elig, j)
		}
	}
	if len(elig) == 0 {
		elig = []int{0}
	}
	j := elig[i%len(elig)]
	sc := &c20Scenario{Name: names[j], Program: []string{cs[j]}, Demo: strings.Contains(cs[j], "snoopy") || strings.Contains(cs[j], "weather") || strings.Contains(cs[j], "hornet") || strings.Contains(cs[j], "hellcat") || strings.Contains(cs[j], "nestouter"), Budget: 500000}
	n := 4
	if tier == "thorough" {
		n = 8
	}
	sc.Orders, sc.History = genOrders(r, n)
	return sc
}

func genC20Targeted(r *kernel.RNG, tier string, i int) interface{} {
	t := targetedC20[i%len(targetedC20)]
	sc := &c20Scenario{Name: t.name, Program: t.prog, Demo: t.demo, Budget: 500000}
	n := 6
	if tier == "thorough" {
		n = 12
	}
	sc.Orders, sc.History = genOrders(r, n)
	return sc
}

func genC20Generated(r *kernel.RNG, tier string, i int) interface{} {
	forms := genProgramNoClock(r, r.Range(2, 8), false, true)
	var prog []string
	for _, f := range forms {
		// the host probes of the vmsession generator are not registered here: make them plain integers
		prog = append(prog, strings.NewReplacer("(hf ", "(+ 0 ", "(hm ", "(+ 1 ", "(hb ", "(+ ").Replace(f.Text))
	}
	// make the result observable
	prog = append(prog, "(str [g0 g1 g2 g3])")
	sc := &c20Scenario{Name: fmt.Sprintf("generated-%d", i), Program: prog, Budget: 500000}
	sc.Orders, sc.History = genOrders(r, 4)
	return sc
}

// genC20Others: the programs of the generators written for the other properties ("all programs ... of the generators
// used for the other properties"): the ill-typed call lists of C01 (several things wrong in one call, so that which
// error is reported first is a choice) and the hash histories of C14 rendered as scripts (constructors with repeated
// keys, deletions, re-insertions), each observed through its printed form, key list and encodings
func genC20Others(r *kernel.RNG, tier string, i int) interface{} {
	var prog []string
	name := ""
	if i%3 == 2 {
		// everything wrong at once: calls by name and constructions in which every argument has the wrong type or an
		// unknown name, so that which complaint comes first is the implementation's choice - it must be the same choice
		// every time
		name = fmt.Sprintf("all-wrong-%d", i)
		prog = append(prog,
			"(func tf4 [a:int64 b:string c:bool d:float64] [n:int64] (return 1)) (func tf5 [x:string y:string z:string] [n:int64 e:error] (return 1 nil))",
			"(struct Tw [(field A: int64 e:0) (field B: string e:1) (field C: float64 e:2) (field D: bool e:3)]) (defmap tmw)")
		wrong := map[string][]string{"int64": {`"s"`, "2.5", "true", "[1]"}, "string": {"7", "2.5", "false", "(hash)"}, "bool": {"1", `"t"`, "[]"}, "float64": {`"f"`, "true", "(list 1)"}}
		call := func(fn string, params []string, types []string, open, close string) string {
			var parts []string
			for _, j := range r.Perm(len(params)) {
				if r.Chance(0.85) {
					parts = append(parts, params[j]+":"+r.Pick(wrong[types[j]]))
				}
			}
			for k := 0; k < r.Intn(3); k++ {
				parts = append(parts, r.Pick([]string{"zz", "nosuch", "q9"})+":1")
			}
			if len(parts) > 0 && r.Chance(0.3) {
				parts = append(parts, parts[0])
			}
			return open + fn + " " + strings.Join(parts, " ") + close
		}
		for k := 0; k < 10; k++ {
			switch r.Intn(4) {
			case 0:
				prog = append(prog, call("tf4", []string{"a", "b", "c", "d"}, []string{"int64", "string", "bool", "float64"}, "(", ")"))
			case 1:
				prog = append(prog, call("tf5", []string{"x", "y", "z"}, []string{"int64", "int64", "int64"}, "(", ")"))
			case 2:
				prog = append(prog, call("Tw", []string{"A", "B", "C", "D"}, []string{"int64", "string", "float64", "bool"}, "(str (", "))"))
			case 3:
				prog = append(prog, call("hash", []string{"A", "B", "C", "D"}, []string{"int64", "string", "float64", "bool"}, "(str (", "))"))
			}
		}
	} else if i%2 == 0 {
		name = fmt.Sprintf("c01-calls-%d", i)
		c := genC01Calls(r, tier, r.Intn(1200)).(*c01Scenario)
		for _, t := range c.Texts {
			skip := false
			for _, ex := range c20Exclude {
				if strings.Contains(t, ex) || strings.Contains(t, strings.TrimPrefix(ex, "(")+" ") && strings.HasPrefix(ex, "(") && strings.Contains(t, "quote "+strings.TrimPrefix(ex, "(")) {
					skip = true
				}
			}
			// (typelist prints the process-wide registry; it has its own targeted programs with stable names.
			// registerDemoFunctions registers Go-backed types with the process, as a host program does before it creates
			// interpreters: later interpreters bind them, by design)
			for _, ex := range []string{"gensym", "now", "random", "timeit", "millis", "sleep", "_closdump", "_ls", "dump", "pretty", "typelist", "registerDemoFunctions"} {
				if strings.Contains(t, ex) {
					skip = true
				}
			}
			if !skip {
				prog = append(prog, "(str "+t+")")
			}
		}
	} else {
		name = fmt.Sprintf("c14-history-%d", i)
		h := genHashScenario(r, tier, i).(*hashScenario)
		src := func(k hkey) string {
			switch k.Kind {
			case "sym":
				return "%" + k.Text
			case "str":
				return strconv.Quote(k.Text)
			case "int", "chr", "arrN":
				return k.Text
			case "arr1":
				return "[" + k.Text + "]"
			case "symnum":
				return "(symnum %" + k.Text + ")"
			case "dotsym":
				return "(quote " + k.Text + ")"
			}
			return "nil"
		}
		var sb strings.Builder
		sb.WriteString("(def h (hash")
		for j, ki := range h.Init {
			fmt.Fprintf(&sb, " %s %d", src(h.Keys[ki]), 900+j)
		}
		sb.WriteString("))")
		prog = append(prog, sb.String(), "(str h)")
		for _, op := range h.Ops {
			k := src(h.Keys[op.K])
			switch op.Op {
			case "hset":
				prog = append(prog, fmt.Sprintf("(hset h %s %d)", k, op.V))
			case "hdel":
				prog = append(prog, fmt.Sprintf("(hdel h %s)", k))
			case "hget", "hgetd":
				prog = append(prog, fmt.Sprintf("(hget h %s 77)", k))
			default:
				prog = append(prog, "(str (keys h))")
			}
		}
		prog = append(prog, "(str h)", "(str (keys h))", "(str (json h))", "(def acc []) (range k v h (set acc (append acc v))) (str acc)")
	}
	sc := &c20Scenario{Name: name, Program: prog, Budget: 500000}
	sc.Orders, sc.History = genOrders(r, 4)
	return sc
}

// genC20OnRecords: every name of the interpreter applied to records, hashes and arrays of them: whatever a builtin
// lists, walks or describes of a record (fields, methods, members, types) must come out in one order
func genC20OnRecords(r *kernel.RNG, tier string, i int) interface{} {
	names := c01Names()
	per := 60
	lo := (i * per) % len(names)
	prog := []string{
		"(struct Or1 [(field Alpha: int64 e:0) (field Beta: string e:1) (field Gamma: float64 e:2) (field Delta: bool e:3) (field Eps: ([]int64) e:4)])",
		"(def o1 (Or1 Alpha: 1 Beta: \"b\" Gamma: 1.5 Delta: true Eps: [1 2]))", "(defmap om)", "(def o2 (om a: 1 b: 2 c: 3 d: 4 e: 5))",
		"(def o3 (hash k1: 1 k2: 2 k3: 3 k4: 4 k5: 5 k6: 6))", "(def o4 (package \"op\" { A := 1; B := 2; C := 3; D := 4 }))",
	}
	// every call gets records of its own, bound locally: a special form among the names (def, defmap, set, rmsym ...)
	// must not take the shared ones away from the calls behind it
	mk := "(let [o1 (Or1 Alpha: 1 Beta: \"b\" Gamma: 1.5 Delta: true Eps: [1 2]) o3 (hash k1: 1 k2: 2 k3: 3 k4: 4 k5: 5 k6: 6)] "
	args := []string{"o1", "o3", "[o1 o1]", "(list o1 o3)", "o1 o3", "(& o1)", "o2", "o4"}
	for j := 0; j < per; j++ {
		n := names[(lo+j)%len(names)]
		skip := false
		for _, ex := range []string{"gensym", "now", "random", "timeit", "millis", "sleep", "_closdump", "_ls", "dump", "pretty", "typelist", "registerDemoFunctions", "system", "exit", "stop", "sys", "getenv", "setenv", "slurpf", "owritef", "writef", "save", "bsave", "bload", "gob", "greenpack", "readf", "source", "req", "include", "import", "cd", "pwd", "Getwd", "chdir", "print"} {
			if strings.Contains(n, ex) {
				skip = true
			}
		}
		if skip || c01SkipNames[n] {
			continue
		}
		a := args[(i+j)%len(args)]
		prog = append(prog, mk+"(str ("+n+" o1)))", mk+"(str ("+n+" "+a+")))")
		if r.Chance(0.3) {
			prog = append(prog, mk+"(str ("+n+" "+r.Pick(args)+" "+r.Pick(args)+")))")
		}
	}
	sc := &c20Scenario{Name: fmt.Sprintf("on-records-%d", i), Program: prog, Budget: 500000}
	sc.Orders, sc.History = genOrders(r, 4)
	return sc
}

func shrinkC20(body json.RawMessage) []json.RawMessage {
	var sc c20Scenario
	if json.Unmarshal(body, &sc) != nil {
		return nil
	}
	var out []json.RawMessage
	emit := func(s c20Scenario) {
		b, _ := json.Marshal(s)
		out = append(out, b)
	}
	// fewer orders (keep at least two)
	if len(sc.Orders) > 2 {
		for i := range sc.Orders {
			s := sc
			s.Orders = append(append([]orderSpec{}, sc.Orders[:i]...), sc.Orders[i+1:]...)
			if i < len(sc.History) {
				s.History = append(append([][]histStep{}, sc.History[:i]...), sc.History[i+1:]...)
			}
			emit(s)
		}
	}
	// no history
	for i, h := range sc.History {
		if len(h) > 0 {
			s := sc
			s.History = append([][]histStep{}, sc.History...)
			s.History[i] = nil
			emit(s)
		}
	}
	// fewer texts
	if len(sc.Program) > 1 {
		for i := range sc.Program {
			s := sc
			s.Program = append(append([]string{}, sc.Program[:i]...), sc.Program[i+1:]...)
			emit(s)
		}
	}
	// shorter single text (corpus scripts): drop lines
	if len(sc.Program) == 1 {
		for _, t := range shrinkText(sc.Program[0], 24) {
			s := sc
			s.Program = []string{t}
			emit(s)
		}
	}
	return out
}

func init() {
	cnt := func(q, t int) func(string) int {
		return func(tier string) int {
			if tier == "thorough" {
				return t
			}
			return q
		}
	}
	kernel.Register(&kernel.Plan{
		Property: "C20",
		Level:    "exploration",
		Rule: "programs = closed corpus scripts (those naming random/time/pointer-printing/outside-world functions excluded), a targeted set that drives every map walk (record<->Go conversion, JSON/msgpack, printing of hashes/scopes/packages, typelist, symnum, symbol comparison, method/field lists, StandardSetup itself) and generated programs; " +
			"schedules = for every map range site the simulator fixes the order (canonical, reverse, rotation, PRNG permutation) plus a process-history prefix of earlier interpreter creations; all schedules of one program must give the same values, captured output and error text. " +
			"A difference is reported only after confirmation on the unmodified runtime (native ranges, fresh interpreters, >=2 distinct outcomes). distinct_nontrivial counts distinct (range site, order class) pairs executed.",
		Components: map[string][]string{
			"real":        {"whole interpreter incl. StandardSetup, converters, printers, registry"},
			"stub":        {"map-order driver (verifmap.Seq2 substituted for every map range by source rewriting of the scratch copy)", "OS seam: read-only access to the scratch copy, stdout captured"},
			"unsimulated": {"1 range over map[interface{}]... in printstate.go (left native; its key type has no canonical order)", "map ranges inside dependencies"},
		},
		Assume: []string{
			"skipping keys deleted during a loop and not producing keys inserted during it are behaviours the Go specification allows, so every simulated execution is a legal execution of the original program",
			"explicit random, time and pointer-printing functions are exempt by the property and excluded by name",
		},
		Parts: []*kernel.Part{
			{Name: "targeted", Count: cnt(len(targetedC20)*2, len(targetedC20)*12), Generate: genC20Targeted, Execute: execC20, Shrink: shrinkC20, Isolated: true},
			{Name: "corpus", Count: cnt(100, 600), Generate: genC20Corpus, Execute: execC20, Shrink: shrinkC20, Isolated: true},
			{Name: "generated", Count: cnt(150, 3000), Generate: genC20Generated, Execute: execC20, Shrink: shrinkC20, Isolated: true},
			{Name: "on-records", Count: func(tier string) int {
				n := (len(c01Names()) + 59) / 60
				if tier == "thorough" {
					return n * 6
				}
				return n
			}, Generate: genC20OnRecords, Execute: execC20, Shrink: shrinkC20, Isolated: true},
			{Name: "other-generators", Count: cnt(80, 3000), Generate: genC20Others, Execute: execC20, Shrink: shrinkC20, Isolated: true},
		},
	})
}
