package eng

import (
	"encoding/json"
	"fmt"
	"regexp"
	"strings"

	"verifsim/kernel"
	"verifsim/zy"

	"github.com/glycerine/zygomys/v9/zygo"
)

// Engine `model`, C17: histories of struct declarations, constructions and
// field writes through every write route, on up to three interpreters that
// share the process-global type registry. One scenario = one OS process.

type sField struct {
	Name string `json:"n"`
	Type string `json:"t"` // int64 string float64 bool []int64 []string *S<k> S<k>
	Tag  string `json:"tag,omitempty"` // json name given in a gotags: option of the declaration
}

type sOp struct {
	Op     string   `json:"op"` // decl new write ptr pwrite preplace decode obs
	Env    int      `json:"env"`
	Struct int      `json:"s,omitempty"`
	Fields []sField `json:"fields,omitempty"`
	Var    int      `json:"v,omitempty"`
	Src    int      `json:"src,omitempty"`
	Route  string   `json:"route,omitempty"` // hset dot infix set colonset
	Field  string   `json:"f,omitempty"`
	Kind   string   `json:"k,omitempty"`    // value kind
	Inits  []sInit  `json:"inits,omitempty"`
	Msgp   bool     `json:"msgp,omitempty"` // decode through msgpack instead of json
}

type sInit struct {
	Field string `json:"f"`
	Kind  string `json:"k"`
}

type c17Scenario struct {
	// struct names are <Prefix><k>: unique per scenario, so that scenarios sharing a worker process
	// (and with it the process-global type registry) do not meet each other's declarations
	Prefix string `json:"prefix"`
	Envs   int    `json:"envs"`
	Ops    []sOp  `json:"ops"`
}

var c17Prefix = "S"

// sn: the script-level name of struct k in the current scenario
func sn(k int) string { return fmt.Sprintf("%s%d", c17Prefix, k) }

var c17FieldNames = []string{"A", "B", "C", "D"}
var c17BaseTypes = []string{"int64", "string", "float64", "bool", "[]int64", "[]string", "[]float64"}
// (mixed: an array of ints and strings; intsplus: an int array that a string was appended to - its cached type still
// says ints; typeobj: a type itself, not a value of it; keysi/keyss: the key list of a hash, an array like any other)
var c17Kinds = []string{"int", "char", "float", "bool", "string", "ints", "strs", "empty", "nil", "ptr0", "ptr1", "inst0", "inst1", "inst2", "nilarr", "listarr",
	"mixed", "intsplus", "typeobj", "keysi", "keyss",
	// values of the language's other types (none of them is a value of a declared base, slice, pointer or struct type),
	// arrays made by map, arrays whose cached type is stale
	"dur", "fnv", "symv", "listv", "uint", "rawv", "mapints", "mapstrs", "staleints", "staleempty",
	// records that carry the name of a type that is no struct (a record can be given any type name)
	"recint", "recstr", "recslice", "recptr",
	// an array that was typed (and accepted somewhere) as ints, grown by a string afterwards
	"cachedplus",
	"floats", "floatint", "intfloat"}

func typeSrc(t string) string {
	switch {
	case strings.HasPrefix(t, "[]"):
		return "(" + t + ")"
	case strings.HasPrefix(t, "*S"):
		var k int
		fmt.Sscanf(t[2:], "%d", &k)
		return "(* " + sn(k) + ")"
	case strings.HasPrefix(t, "S"):
		var k int
		fmt.Sscanf(t[1:], "%d", &k)
		return sn(k)
	}
	return t
}

// fits: does a value of this kind satisfy the declared type (strict; nil fits everything because the language accepts nil for every field)
func fits(kind, t string) bool {
	if kind == "nil" {
		return true
	}
	switch t {
	case "int64":
		return kind == "int"
	case "string":
		return kind == "string"
	case "float64":
		return kind == "float"
	case "bool":
		return kind == "bool"
	case "[]int64":
		return kind == "ints" || kind == "empty" || kind == "keysi" || kind == "mapints" || kind == "staleints" || kind == "staleempty"
	case "[]string":
		return kind == "strs" || kind == "empty" || kind == "keyss" || kind == "mapstrs"
	case "[]float64":
		return kind == "floats" || kind == "empty"
	}
	if strings.HasPrefix(t, "*S") {
		return kind == "ptr"+t[2:]
	}
	if strings.HasPrefix(t, "S") {
		return kind == "inst"+t[1:]
	}
	return false
}

// ---- model

type mInst struct {
	env    int
	sname  int
	def    map[string]string // field -> type, as in force at creation
	exists bool
}

type c17Model struct {
	decl  map[int]map[string]string // current definition per struct name (process-wide: the registry is global)
	bound map[[2]int]bool           // (env, struct) symbol bound in that interpreter
	inst  map[[2]int]*mInst         // (env, var)
	ptrs  map[[2]int]int            // (env, ptr var) -> instance var
}

func copyDef(d map[string]string) map[string]string {
	c := map[string]string{}
	for k, v := range d {
		c[k] = v
	}
	return c
}

// ---- classify a stored value from the Go side

func classifyVal(v zygo.Sexp) string {
	switch x := v.(type) {
	case *zygo.SexpInt:
		return "int"
	case *zygo.SexpChar:
		return "char"
	case *zygo.SexpFloat:
		return "float"
	case *zygo.SexpBool:
		return "bool"
	case *zygo.SexpStr:
		return "string"
	case *zygo.SexpSentinel:
		return "nil"
	case *zygo.SexpArray:
		if len(x.Val) == 0 {
			return "empty"
		}
		k := ""
		for _, e := range x.Val {
			ek := classifyVal(e)
			if ek == "nil" && len(x.Val) > 1 {
				continue // nil is accepted wherever a value is (the language says so for fields, so for elements)
			}
			if k == "" {
				k = ek
			} else if k != ek {
				return "mixed"
			}
		}
		switch k {
		case "int":
			return "ints"
		case "string":
			return "strs"
		case "float":
			return "floats"
		}
		return "arr-of-" + k
	case *zygo.SexpPointer:
		if h, ok := x.Target.(*zygo.SexpHash); ok && strings.HasPrefix(h.TypeName, c17Prefix) {
			return "ptr" + h.TypeName[len(c17Prefix):]
		}
		return "ptr?"
	case *zygo.SexpHash:
		if strings.HasPrefix(x.TypeName, c17Prefix) {
			return "inst" + x.TypeName[len(c17Prefix):]
		}
		return "hash:" + x.TypeName
	}
	return fmt.Sprintf("%T", v)
}

var reAddrC17 = regexp.MustCompile(`0x[0-9a-fA-F]+`)

func execC17(body json.RawMessage) *kernel.Result {
	var sc c17Scenario
	res := &kernel.Result{}
	if err := json.Unmarshal(body, &sc); err != nil {
		res.Violate("", "harness", "bad-scenario", err.Error())
		return res
	}
	if sc.Envs < 1 {
		sc.Envs = 1
	}
	if sc.Prefix == "" {
		sc.Prefix = "S"
	}
	c17Prefix = sc.Prefix
	envs := make([]*zygo.Zlisp, sc.Envs)
	// a helper struct with slice fields: storing an array in one of them is what makes the array remember its type
	helper := "Zh" + strings.TrimPrefix(sc.Prefix, "T")
	for i := range envs {
		envs[i] = zy.New("std")
		zy.Eval(envs[i], fmt.Sprintf("(struct %s [(field N: ([]int64)) (field M: ([]string))]) ", helper), 100000)
	}
	m := &c17Model{decl: map[int]map[string]string{}, bound: map[[2]int]bool{}, inst: map[[2]int]*mInst{}, ptrs: map[[2]int]int{}}
	fail := func(clause, site, f string, a ...interface{}) {
		res.Violate("C17", "C17."+clause, site, fmt.Sprintf(f, a...))
	}
	ev := func(e int, text string) zy.Outcome {
		res.Execs++
		o := zy.Eval(envs[e], text+" ", 100000)
		if !o.OK() {
			envs[e].Clear()
		}
		return o
	}
	vname := func(v int) string { return fmt.Sprintf("w%d", v) }
	pname := func(v int) string { return fmt.Sprintf("p%d", v) }

	// value source for a kind, or "" if not available in that interpreter right now
	valSrc := func(e int, kind string) string {
		switch kind {
		case "int":
			return "7"
		case "char":
			return "'c'"
		case "float":
			return "2.5"
		case "bool":
			return "true"
		case "string":
			return `"s"`
		case "ints":
			return "[1 2]"
		case "strs":
			return `["a" "b"]`
		case "empty":
			return "[]"
		case "nil":
			return "nil"
		case "nilarr":
			return "[nil 2]" // a non-empty array whose first element has no type
		case "listarr":
			return "[(quote (1 2)) 3]"
		case "mixed":
			return `[1 "a"]`
		case "intsplus":
			return `(append [1 2] "z")`
		case "typeobj":
			return "int64"
		case "keysi":
			return "(keys (hash 5 1 6 2))"
		case "keyss":
			return `(keys (hash "k" 1))`
		case "dur":
			return `(dur "1s")`
		case "fnv":
			return "(fn [] 1)"
		case "symv":
			return "(quote zz)"
		case "listv":
			return "(list 1 2)"
		case "uint":
			return "3ULL"
		case "rawv":
			return `(raw "ab")`
		case "mapints":
			return "(map (fn [x] x) [7 8])"
		case "mapstrs":
			return "(map (fn [x] (str x)) [1 2])"
		case "staleints":
			// ints in an array that was typed as strings while it held strings
			return "(let [e [\"m\" \"n\"]] (" + helper + " M: e) (append (append (slice e 2 2) 1) 2))"
		case "floats":
			return "[1.5 2.5]"
		case "floatint":
			return "[1.5 2]"
		case "intfloat":
			return "[2 3.5]"
		case "cachedplus":
			return "(let [e [1 2]] (" + helper + ` N: e) (append e "z"))`
		case "recint":
			return `(msgmap "int64" (list (quote a) 1))`
		case "recstr":
			return `(msgmap "string" (list (quote a) "q"))`
		case "recslice":
			return `(msgmap "[]int64" (list (quote a) 1))`
		case "recptr":
			return `(msgmap "*int64" (list (quote a) 1))`
		case "staleempty":
			// an int in an array that was typed while it was empty
			return "(let [e []] (" + helper + " N: e) (append e 5))"
		}
		if strings.HasPrefix(kind, "ptr") || strings.HasPrefix(kind, "inst") {
			isPtr := strings.HasPrefix(kind, "ptr")
			var k int
			fmt.Sscanf(kind[len(kind)-1:], "%d", &k)
			// an existing instance variable of struct k in this interpreter
			for v := 0; v < 4; v++ {
				if in := m.inst[[2]int{e, v}]; in != nil && in.exists && in.sname == k {
					if isPtr {
						return "(& " + vname(v) + ")"
					}
					return vname(v)
				}
			}
		}
		return ""
	}

	readInst := func(e, v int) (*zygo.SexpHash, bool) {
		x, ok := envs[e].VerifGlobal(vname(v))
		if !ok {
			return nil, false
		}
		h, isHash := x.(*zygo.SexpHash)
		return h, isHash
	}
	show := func(h *zygo.SexpHash) string { return reAddrC17.ReplaceAllString(zy.Show(h), "0x#") }

	// records nested inside an instance (e.g. decoded with their own type name) are instances too: each is judged
	// against the declaration of its struct that was in force when the harness first saw it (right after its creation)
	nestedDefs := map[*zygo.SexpHash]map[string]string{}
	var checkNested func(step int, what string, env *zygo.Zlisp, h *zygo.SexpHash, depth int) bool
	checkNested = func(step int, what string, env *zygo.Zlisp, h *zygo.SexpHash, depth int) bool {
		if depth > 4 || !strings.HasPrefix(h.TypeName, c17Prefix) {
			return true
		}
		var k int
		if _, err := fmt.Sscanf(h.TypeName[len(c17Prefix):], "%d", &k); err != nil {
			return true
		}
		def, known := nestedDefs[h]
		if !known {
			if m.decl[k] == nil {
				return true
			}
			def = copyDef(m.decl[k])
			nestedDefs[h] = def
		}
		for _, key := range h.KeyOrder {
			ks, isSym := key.(*zygo.SexpSymbol)
			if !isSym {
				fail("F-fields", "non-symbol-key", "step %d (%s): a nested record of struct S%d has a non-symbol key %s", step, what, k, zy.Show(key))
				return false
			}
			val, err := h.HashGet(env, key)
			if err != nil {
				continue
			}
			t, declared := def[ks.Name()]
			if !declared {
				fail("F-fields", what+"-nested", "step %d (%s): a nested record of struct S%d (declared %v when created) has the undeclared field %s: %s", step, what, k, def, ks.Name(), reAddrC17.ReplaceAllString(zy.Show(h), "0x#"))
				return false
			}
			if kind := classifyVal(val); !fits(kind, t) {
				fail("T-types", what+"-nested", "step %d (%s): a nested record of struct S%d has field %s declared %s but holding a value of kind %s: %s", step, what, k, ks.Name(), t, kind, reAddrC17.ReplaceAllString(zy.Show(h), "0x#"))
				return false
			}
			if nh, isHash := val.(*zygo.SexpHash); isHash {
				if !checkNested(step, what, env, nh, depth+1) {
					return false
				}
			}
		}
		return true
	}

	checkAll := func(step int, what string) bool {
		for key, in := range m.inst {
			if !in.exists {
				continue
			}
			h, ok := readInst(key[0], key[1])
			if !ok {
				continue // the variable no longer holds an instance (not judged)
			}
			// nested records that are not themselves tracked variables
			for _, k := range h.KeyOrder {
				if val, err := h.HashGet(envs[key[0]], k); err == nil {
					if nh, isHash := val.(*zygo.SexpHash); isHash {
						tracked := false
						for k2, in2 := range m.inst {
							if in2.exists && k2[0] == key[0] {
								if h2, ok2 := readInst(k2[0], k2[1]); ok2 && h2 == nh {
									tracked = true
								}
							}
						}
						if !tracked && !checkNested(step, what, envs[key[0]], nh, 0) {
							return false
						}
					}
				}
			}
			for _, k := range h.KeyOrder {
				ks, isSym := k.(*zygo.SexpSymbol)
				if !isSym {
					fail("F-fields", "non-symbol-key", "step %d (%s): instance %s of S%d has a non-symbol key %s", step, what, vname(key[1]), in.sname, zy.Show(k))
					return false
				}
				val, err := h.HashGet(envs[key[0]], k)
				if err != nil {
					continue
				}
				t, declared := in.def[ks.Name()]
				if !declared {
					fail("F-fields", what, "step %d (%s): instance %s (struct S%d as declared at its creation: %v) now has the undeclared field %s: %s", step, what, vname(key[1]), in.sname, in.def, ks.Name(), show(h))
					return false
				}
				kind := classifyVal(val)
				if !fits(kind, t) {
					fail("T-types", what, "step %d (%s): instance %s field %s is declared %s but holds a value of kind %s: %s", step, what, vname(key[1]), ks.Name(), t, kind, show(h))
					return false
				}
			}
		}
		return true
	}

	for step, op := range sc.Ops {
		e := op.Env % sc.Envs
		switch op.Op {
		case "decl":
			var sb strings.Builder
			fmt.Fprintf(&sb, "(struct %s [", sn(op.Struct))
			def := map[string]string{}
			okRefs := true
			for i, f := range op.Fields {
				// referenced structs must be bound in this interpreter
				if strings.Contains(f.Type, "S") {
					var k int
					fmt.Sscanf(f.Type[len(f.Type)-1:], "%d", &k)
					if !m.bound[[2]int{e, k}] || k == op.Struct {
						okRefs = false
					}
				}
				if f.Tag != "" {
					fmt.Fprintf(&sb, "(field %s: %s e:%d gotags:`json:\"%s\" msg:\"%s\"`) ", f.Name, typeSrc(f.Type), i, f.Tag, f.Tag)
				} else {
					fmt.Fprintf(&sb, "(field %s: %s e:%d) ", f.Name, typeSrc(f.Type), i)
				}
				def[f.Name] = f.Type
			}
			sb.WriteString("])")
			if !okRefs || len(def) != len(op.Fields) {
				continue
			}
			o := ev(e, sb.String())
			if o.Panicked {
				fail("P-panic", "decl@"+o.Site, "step %d: %s panicked: %s", step, sb.String(), o.PanicMsg)
				return res
			}
			if o.OK() {
				if m.decl[op.Struct] != nil {
					res.Probe("redeclaration")
				}
				m.decl[op.Struct] = def
				m.bound[[2]int{e, op.Struct}] = true
			}
			res.Sig(fmt.Sprintf("decl|%d|n%d|redecl=%v", sc.Envs, len(def), m.decl[op.Struct] != nil))
		case "new", "decode":
			if !m.bound[[2]int{e, op.Struct}] || m.decl[op.Struct] == nil {
				continue
			}
			def := m.decl[op.Struct]
			var parts []string
			allFit, allKnown, usable := true, true, true
			for _, in := range op.Inits {
				src := valSrc(e, in.Kind)
				if src == "" {
					usable = false
					break
				}
				t, known := def[in.Field]
				if !known {
					allKnown = false
				} else if !fits(in.Kind, t) {
					allFit = false
				}
				if op.Op == "decode" {
					js := map[string]string{"int": "7", "float": "2.5", "bool": "true", "string": `\"s\"`, "ints": "[1, 2]", "strs": `[\"a\", \"b\"]`, "empty": "[]", "nil": "null", "mixed": `[1, \"a\"]`, "keysi": "[5, 6]", "keyss": `[\"k\"]`,
						"floats": "[1.5, 2.5]", "floatint": "[1.5, 2]", "intfloat": "[2, 3.5]", "recint": `{\"Atype\":\"int64\", \"a\":1}`, "recstr": `{\"Atype\":\"string\", \"a\":\"q\"}`, "recslice": `{\"Atype\":\"[]int64\", \"a\":1}`}[in.Kind]
					if strings.HasPrefix(in.Kind, "inst") {
						// a nested record carrying its own type name; sometimes with a member of the wrong kind / not declared
						var k int
						fmt.Sscanf(in.Kind[4:], "%d", &k)
						if m.decl[k] != nil && m.bound[[2]int{e, k}] {
							inner := ""
							for fname, ftype := range m.decl[k] {
								if ftype == "int64" {
									inner = fmt.Sprintf(`, \"%s\":%s`, fname, []string{"5", `\"bad\"`}[step%2])
									break
								}
							}
							if step%5 == 0 {
								inner += `, \"Zed\":1`
							}
							js = fmt.Sprintf(`{\"Atype\":\"%s\"%s}`, sn(k), inner)
							if step%3 == 1 {
								// the same nested object without its own type tag
								js = "{" + strings.TrimPrefix(inner, ", ") + "}"
								if js == "{}" {
									js = `{\"Zed\":1}`
								}
							}
						}
					}
					if js == "" {
						usable = false
						break
					}
					parts = append(parts, fmt.Sprintf(`\"%s\":%s`, in.Field, js))
				} else {
					parts = append(parts, fmt.Sprintf("%s: %s", in.Field, src))
				}
			}
			if !usable {
				continue
			}
			var text string
			if op.Op == "decode" {
				if op.Src == 1 && len(op.Inits) > 0 {
					// the encoder's own key-order member, as in anything that (json x) wrote
					var ko []string
					for _, in := range op.Inits {
						ko = append(ko, fmt.Sprintf(`\"%s\"`, in.Field))
					}
					parts = append(parts, fmt.Sprintf(`\"zKeyOrder\":[%s]`, strings.Join(ko, ", ")))
					res.Probe("decode-with-key-order")
				}
				text = fmt.Sprintf(`(def %s (unjson (raw "{\"Atype\":\"%s\"%s}")))`, vname(op.Var), sn(op.Struct), prefixComma(parts))
				if op.Msgp {
					text = fmt.Sprintf(`(def %s (unmsgpack (msgpack (unjson (raw "{\"Atype\":\"%s\"%s}")))))`, vname(op.Var), sn(op.Struct), prefixComma(parts))
				}
			} else {
				text = fmt.Sprintf("(def %s (%s %s))", vname(op.Var), sn(op.Struct), strings.Join(parts, " "))
			}
			// the variable may hold an instance of another struct: rebinding is subject to the variable type rule; use a fresh binding
			ev(e, fmt.Sprintf("(rmsym (quote %s))", vname(op.Var)))
			delete(m.inst, [2]int{e, op.Var})
			for pk, pv := range m.ptrs {
				if pk[0] == e && pv == op.Var {
					delete(m.ptrs, pk) // the pointer keeps pointing at the old object, which the model no longer follows
				}
			}
			o := ev(e, text)
			res.Sig(fmt.Sprintf("%s|fit=%v|known=%v|ok=%v", op.Op, allFit, allKnown, o.OK()))
			if o.Panicked {
				fail("P-panic", op.Op+"@"+o.Site, "step %d: %s panicked: %s", step, text, o.PanicMsg)
				return res
			}
			if o.OK() {
				if hh, isInst := readInst(e, op.Var); isInst {
					m.inst[[2]int{e, op.Var}] = &mInst{env: e, sname: op.Struct, def: copyDef(def), exists: true}
					nestedDefs[hh] = copyDef(def) // should it later sit inside another record, it keeps this declaration
				}
				if !allFit || !allKnown {
					res.Probe("bad-construction-accepted")
				}
				// a member that was given and refused must have been reported: it cannot just be missing from an
				// instance that was handed out without an error
				if hh, isInst := readInst(e, op.Var); isInst {
					for _, in := range op.Inits {
						present := false
						for _, k := range hh.KeyOrder {
							if ks, isSym := k.(*zygo.SexpSymbol); isSym && ks.Name() == in.Field {
								present = true
							}
						}
						if !present {
							fail("R-rejected", op.Op+"-dropped", "step %d: %s succeeded, but the member %s (a %s) that it was given is missing from the instance %s: refused without an error", step, text, in.Field, in.Kind, show(hh))
							return res
						}
					}
				}
			}
			if !checkAll(step, op.Op) {
				return res
			}
		case "write", "pwrite":
			in := m.inst[[2]int{e, op.Var}]
			if in == nil || !in.exists {
				continue
			}
			h, ok := readInst(e, op.Var)
			if !ok {
				continue
			}
			src := valSrc(e, op.Kind)
			if src == "" {
				continue
			}
			target := vname(op.Var)
			if op.Op == "pwrite" {
				if pv, has := m.ptrs[[2]int{e, op.Src}]; !has || pv != op.Var {
					continue
				}
				target = "(* " + pname(op.Src) + ")"
			}
			var text string
			switch op.Route {
			case "dot":
				if op.Op == "pwrite" {
					text = fmt.Sprintf("(hset %s %s: %s)", target, op.Field, src)
				} else {
					text = fmt.Sprintf("(set %s.%s %s)", target, op.Field, src)
				}
			case "infix":
				if op.Op == "pwrite" {
					text = fmt.Sprintf("(hset %s %s: %s)", target, op.Field, src)
				} else {
					text = fmt.Sprintf("{%s.%s = %s}", target, op.Field, src)
				}
			case "index":
				if op.Op == "pwrite" {
					text = fmt.Sprintf("(hset %s %s: %s)", target, op.Field, src)
				} else {
					text = fmt.Sprintf("{%s[%%%s] = %s}", target, op.Field, src)
				}
			case "nested":
				// two-component path through a struct-typed field: {w.F.G = v}
				text = fmt.Sprintf("{%s.%s = %s}", target, op.Field, src)
			case "strkey":
				// the field named by a string instead of a symbol
				text = fmt.Sprintf("(hset %s %q %s)", target, op.Field, src)
			case "elem":
				// a write into the array a slice field holds, not to the field itself
				text = fmt.Sprintf("(aset (hget %s %s:) 0 %s)", target, op.Field, src)
			case "elemidx":
				text = fmt.Sprintf("{%s.%s[0] = %s}", target, op.Field, src)
			case "elemptr":
				// the whole array replaced through a pointer to the value the field holds
				text = fmt.Sprintf("(derefSet (& (hget %s %s:)) [%s %s])", target, op.Field, src, src)
			default:
				text = fmt.Sprintf("(hset %s %s: %s)", target, op.Field, src)
			}
			before := show(h)
			o := ev(e, text)
			t, declared := in.def[op.Field]
			if op.Route == "nested" {
				// judged by the invariant check and the rejected-write clause only
				t, declared = "", false
			}
			if op.Route == "strkey" {
				declared = false // fields are named by symbols; a string key names no declared field
			}
			if op.Route == "elem" || op.Route == "elemidx" || op.Route == "elemptr" {
				// judged by the invariant check only (the element either fits the slice or the write is refused)
				t, declared = "", false
			}
			wellTyped := declared && fits(op.Kind, t)
			res.Sig(fmt.Sprintf("%s|%s|%s->%s|ok=%v", op.Op, op.Route, op.Kind, t, o.OK()))
			if o.Panicked {
				fail("P-panic", op.Route+"@"+o.Site, "step %d: %s panicked: %s", step, text, o.PanicMsg)
				return res
			}
			if !o.OK() {
				res.Probe("write-rejected")
				if after := show(h); after != before {
					fail("R-rejected", op.Route, "step %d: the rejected write %s (%s) changed the instance from %s to %s", step, text, o, before, after)
					return res
				}
				if wellTyped && (op.Kind == "nil" || op.Kind == "empty") && (strings.HasPrefix(t, "[]") || strings.HasPrefix(t, "*")) {
					fail("A-nil", op.Route, "step %d: %s: nil / the empty slice was refused for the %s field %s: %s", step, text, t, op.Field, o)
					return res
				}
			} else {
				res.Probe("write-accepted")
				if !wellTyped {
					res.Probe("ill-typed-write-accepted") // judged by the invariant check below
				}
			}
			if !checkAll(step, op.Route) {
				return res
			}
		case "ptr":
			in := m.inst[[2]int{e, op.Var}]
			if in == nil || !in.exists {
				continue
			}
			ev(e, fmt.Sprintf("(rmsym (quote %s))", pname(op.Src)))
			if o := ev(e, fmt.Sprintf("(def %s (& %s))", pname(op.Src), vname(op.Var))); o.OK() {
				m.ptrs[[2]int{e, op.Src}] = op.Var
				res.Probe("pointer-taken")
			}
		case "preplace":
			// whole-instance replacement through a pointer: (derefSet p src)
			tv, has := m.ptrs[[2]int{e, op.Src}]
			if !has {
				continue
			}
			tin := m.inst[[2]int{e, tv}]
			sin := m.inst[[2]int{e, op.Var}]
			if tin == nil || sin == nil || !tin.exists || !sin.exists {
				continue
			}
			h, ok := readInst(e, tv)
			if !ok {
				continue
			}
			before := show(h)
			text := fmt.Sprintf("(derefSet %s %s)", pname(op.Src), vname(op.Var))
			o := ev(e, text)
			sameDef := tin.sname == sin.sname && fmt.Sprint(tin.def) == fmt.Sprint(sin.def)
			res.Sig(fmt.Sprintf("preplace|same=%v|samename=%v|ok=%v", sameDef, tin.sname == sin.sname, o.OK()))
			if o.Panicked {
				fail("P-panic", "derefSet@"+o.Site, "step %d: %s panicked: %s", step, text, o.PanicMsg)
				return res
			}
			if !o.OK() {
				if after := show(h); after != before {
					fail("R-rejected", "derefSet", "step %d: the rejected %s changed the instance from %s to %s", step, text, before, after)
					return res
				}
			}
			if !checkAll(step, "derefSet") {
				return res
			}
			if o.OK() && !sameDef {
				// accepted although the declarations differ but (so far) without an observable breach:
				// which declaration the instance follows from here on is not settled by the statement; stop judging it
				res.Probe("cross-declaration-replace-accepted")
				tin.exists = false
			}
		case "obs":
			if !checkAll(step, "obs") {
				return res
			}
			// reading a member - also through the conversion functions - is no write; and what a field holds can be
			// written back into it
			for key, in := range m.inst {
				if !in.exists || key[0] != e {
					continue
				}
				h, ok := readInst(key[0], key[1])
				if !ok {
					continue
				}
				for _, k := range h.KeyOrder {
					ks, isSym := k.(*zygo.SexpSymbol)
					if !isSym {
						continue
					}
					before := show(h)
					for _, conv := range []string{"str", "type?", "int64", "int32", "uint8", "float64", "len", "byte", "uint64", "float32"} {
						ev(e, fmt.Sprintf("(%s (hget %s %s:))", conv, vname(key[1]), ks.Name()))
					}
					res.Probe("member-read-through-conversions")
					if after := show(h); after != before {
						fail("R-rejected", "read", "step %d: reading member %s of %s through the conversion functions changed the instance from %s to %s", step, ks.Name(), vname(key[1]), before, after)
						return res
					}
					val, err := h.HashGet(envs[e], k)
					if err != nil || val == zygo.SexpNull {
						continue
					}
					hasNilElem := false
					if arr, isArr := val.(*zygo.SexpArray); isArr {
						for _, x := range arr.Val {
							if x == zygo.SexpNull {
								hasNilElem = true // (an array that starts with nil has no type: refused as a whole by design)
							}
						}
					}
					if t, declared := in.def[ks.Name()]; declared && fits(classifyVal(val), t) && !strings.Contains(t, "S") && !hasNilElem {
						if o := ev(e, fmt.Sprintf("(hset %s %s: (hget %s %s:))", vname(key[1]), ks.Name(), vname(key[1]), ks.Name())); !o.OK() && !o.Panicked {
							fail("T-types", "self-write", "step %d: the value that field %s of %s holds is refused when written back into it: %s (instance %s)", step, ks.Name(), vname(key[1]), o, show(h))
							return res
						}
					}
				}
			}
			if !checkAll(step, "obs-after-reads") {
				return res
			}
		}
		res.Tracef("%d %s", step, op.Op)
	}
	for _, env := range envs {
		closeQuietly(env)
	}
	res.Steps = kernel.Steps()
	return res
}

func prefixComma(parts []string) string {
	if len(parts) == 0 {
		return ""
	}
	return ", " + strings.Join(parts, ", ")
}

// ---- generation

func genFields(r *kernel.RNG, self int) []sField {
	n := r.Range(1, 4)
	if r.Chance(0.06) {
		n = 0 // a struct without fields is a declaration like any other
	}
	var fs []sField
	for i := 0; i < n; i++ {
		t := r.Pick(c17BaseTypes)
		if r.Chance(0.25) {
			k := r.Intn(3)
			if k != self {
				if r.Chance(0.5) {
					t = fmt.Sprintf("*S%d", k)
				} else {
					t = fmt.Sprintf("S%d", k)
				}
			}
		}
		f := sField{Name: c17FieldNames[i], Type: t}
		if r.Chance(0.3) {
			// the declaration's own options name the field differently for the Go and wire side
			f.Tag = r.Pick([]string{strings.ToLower(f.Name), strings.ToLower(f.Name) + ",omitempty", "w_" + f.Name})
		}
		fs = append(fs, f)
	}
	return fs
}

// undeclaredName: a member name the struct does not declare - an unrelated one, or one that looks like a declared
// field (other case, the field's wire name from its gotags, a suffix)
func undeclaredName(r *kernel.RNG, fs []sField) string {
	if len(fs) == 0 || r.Chance(0.3) {
		return "Zed"
	}
	f := fs[r.Intn(len(fs))]
	var c []string
	c = append(c, strings.ToLower(f.Name), f.Name+"x")
	if f.Tag != "" {
		tag := f.Tag
		if i := strings.Index(tag, ","); i >= 0 {
			tag = tag[:i]
		}
		c = append(c, tag, tag, tag)
	}
	return r.Pick(c)
}

func genC17(r *kernel.RNG, tier string, i int) interface{} {
	sc := &c17Scenario{Envs: r.PickInt([]int{1, 1, 1, 2, 3}), Prefix: fmt.Sprintf("T%dx%d_", r.Intn(1000000), i)}
	n := r.Range(6, 36)
	// generation-time bookkeeping so that most operations are applicable (the executor re-checks)
	bound := map[[2]int]bool{}
	declared := map[int][]sField{}
	inst := map[[2]int]int{} // (env,var) -> struct
	ptrs := map[[2]int]int{}
	decl := func(e, s int) {
		fs := genFields(r, s)
		if r.Chance(0.3) {
			// word for word the field list of another struct: the same layout under another name is another type
			for k := 0; k < 3; k++ {
				if k != s && len(declared[k]) > 0 {
					fs = append([]sField{}, declared[k]...)
					break
				}
			}
		}
		var ok []sField
		for _, f := range fs {
			if strings.Contains(f.Type, "S") {
				var k int
				fmt.Sscanf(f.Type[len(f.Type)-1:], "%d", &k)
				if !bound[[2]int{e, k}] {
					f.Type = r.Pick(c17BaseTypes)
				}
			}
			ok = append(ok, f)
		}
		sc.Ops = append(sc.Ops, sOp{Op: "decl", Env: e, Struct: s, Fields: ok})
		bound[[2]int{e, s}] = true
		declared[s] = ok
	}
	for e := 0; e < sc.Envs; e++ {
		for s := 0; s < r.Range(1, 3); s++ {
			decl(e, s)
		}
	}
	pickKind := func(e int, t string) string {
		// half of the time a kind that fits, otherwise anything
		if r.Chance(0.5) {
			var fit []string
			for _, k := range c17Kinds {
				if fits(k, t) {
					fit = append(fit, k)
				}
			}
			if len(fit) > 0 {
				return r.Pick(fit)
			}
		}
		// a near miss for record and pointer fields: an instance of (a pointer to) another struct
		if (strings.HasPrefix(t, "S") || strings.HasPrefix(t, "*S")) && r.Chance(0.6) {
			return r.Pick([]string{"inst0", "inst1", "inst2", "ptr0", "ptr1"})
		}
		return r.Pick(c17Kinds)
	}
	w := []int{2, 5, 9, 2, 3, 3, 2, 1}
	kinds := []string{"decl", "new", "write", "ptr", "pwrite", "preplace", "decode", "obs"}
	for j := 0; j < n; j++ {
		e := r.Intn(sc.Envs)
		op := sOp{Op: kinds[r.Weighted(w)], Env: e, Struct: r.Intn(3), Var: r.Intn(4), Src: r.Intn(2)}
		switch op.Op {
		case "decl":
			decl(e, op.Struct)
			continue
		case "new", "decode":
			if !bound[[2]int{e, op.Struct}] {
				decl(e, op.Struct)
			}
			for _, f := range declared[op.Struct] {
				if r.Chance(0.7) {
					op.Inits = append(op.Inits, sInit{Field: f.Name, Kind: pickKind(e, f.Type)})
				}
			}
			if r.Chance(0.12) {
				op.Inits = append(op.Inits, sInit{Field: undeclaredName(r, declared[op.Struct]), Kind: r.Pick([]string{"int", "string", "int"})})
			}
			if len(op.Inits) > 0 && r.Chance(0.15) {
				// the same field given twice, the second time with an arbitrary kind
				op.Inits = append(op.Inits, sInit{Field: op.Inits[0].Field, Kind: r.Pick(c17Kinds)})
			}
			op.Msgp = r.Chance(0.3)
			inst[[2]int{e, op.Var}] = op.Struct
		case "write", "pwrite":
			// aim at an existing instance
			var vs []int
			for v := 0; v < 4; v++ {
				if _, ok := inst[[2]int{e, v}]; ok {
					vs = append(vs, v)
				}
			}
			if len(vs) == 0 {
				continue
			}
			op.Var = vs[r.Intn(len(vs))]
			fs := declared[inst[[2]int{e, op.Var}]]
			if len(fs) == 0 {
				// the declaration now in force has no fields: aim at a name other declarations of the family use
				fs = []sField{{Name: c17FieldNames[r.Intn(2)], Type: r.Pick(c17BaseTypes)}}
			}
			f := fs[r.Intn(len(fs))]
			op.Field = f.Name
			op.Kind = pickKind(e, f.Type)
			if r.Chance(0.1) {
				op.Field = undeclaredName(r, fs)
				if r.Chance(0.5) {
					op.Kind = r.Pick(c17Kinds)
				}
			}
			if strings.HasPrefix(f.Type, "S") && op.Field == f.Name && r.Chance(0.5) {
				// the nearest miss for a record field: an instance of another struct with the very same field list
				var i0 int
				fmt.Sscanf(f.Type[1:], "%d", &i0)
				for j0 := 0; j0 < 3; j0++ {
					if j0 != i0 && len(declared[j0]) > 0 && fmt.Sprint(declared[j0]) == fmt.Sprint(declared[i0]) && bound[[2]int{e, j0}] {
						op.Kind = fmt.Sprintf("inst%d", j0)
						have := false
						for v := 0; v < 4; v++ {
							if sj, ok := inst[[2]int{e, v}]; ok && sj == j0 {
								have = true
							}
						}
						if !have {
							for v := 0; v < 4; v++ {
								if v != op.Var {
									sc.Ops = append(sc.Ops, sOp{Op: "new", Env: e, Struct: j0, Var: v})
									inst[[2]int{e, v}] = j0
									break
								}
							}
						}
						break
					}
				}
			}
			op.Route = r.Pick([]string{"hset", "dot", "infix", "index", "hset", "strkey"})
			if strings.HasPrefix(f.Type, "[]") && op.Field == f.Name && r.Chance(0.25) {
				op.Route = r.Pick([]string{"elem", "elemidx", "elemptr"})
				op.Kind = r.Pick([]string{"int", "string", "float", "nil", "int", "string"})
			}
			if op.Op == "write" {
				// a nested path through a struct-typed field (set or unset), to a declared or undeclared leaf
				for _, nf := range fs {
					if strings.HasPrefix(nf.Type, "S") && r.Chance(0.5) {
						var k int
						fmt.Sscanf(nf.Type[1:], "%d", &k)
						if len(declared[k]) > 0 {
							leaf := declared[k][r.Intn(len(declared[k]))]
							op.Route = "nested"
							op.Field = nf.Name + "." + leaf.Name
							if r.Chance(0.1) {
								op.Field = nf.Name + ".Zed"
							}
							op.Kind = pickKind(e, leaf.Type)
						}
					}
				}
			}
			if op.Op == "pwrite" {
				found := false
				for p := 0; p < 2; p++ {
					if pv, ok := ptrs[[2]int{e, p}]; ok && pv == op.Var {
						op.Src = p
						found = true
					}
				}
				if !found {
					// take the pointer first
					sc.Ops = append(sc.Ops, sOp{Op: "ptr", Env: e, Var: op.Var, Src: op.Src})
					ptrs[[2]int{e, op.Src}] = op.Var
				}
			}
		case "ptr":
			var vs []int
			for v := 0; v < 4; v++ {
				if _, ok := inst[[2]int{e, v}]; ok {
					vs = append(vs, v)
				}
			}
			if len(vs) == 0 {
				continue
			}
			op.Var = vs[r.Intn(len(vs))]
			ptrs[[2]int{e, op.Src}] = op.Var
		case "preplace":
			// replace the pointed-to instance by another instance, preferably of the same struct name
			// (possibly created under an older declaration)
			tv, ok := ptrs[[2]int{e, op.Src}]
			if !ok {
				continue
			}
			var same, any []int
			for v := 0; v < 4; v++ {
				if sname, ok := inst[[2]int{e, v}]; ok && v != tv {
					any = append(any, v)
					if sname == inst[[2]int{e, tv}] {
						same = append(same, v)
					}
				}
			}
			switch {
			case len(same) > 0 && r.Chance(0.8):
				op.Var = same[r.Intn(len(same))]
			case len(any) > 0:
				op.Var = any[r.Intn(len(any))]
			default:
				continue
			}
		}
		sc.Ops = append(sc.Ops, op)
	}
	return sc
}

func shrinkC17(body json.RawMessage) []json.RawMessage {
	var sc c17Scenario
	if json.Unmarshal(body, &sc) != nil {
		return nil
	}
	var out []json.RawMessage
	emit := func(s c17Scenario) {
		b, _ := json.Marshal(s)
		out = append(out, b)
	}
	n := len(sc.Ops)
	for _, chunk := range []int{n / 2, n / 4, 1} {
		if chunk < 1 {
			continue
		}
		for i := 0; i+chunk <= n; i += chunk {
			s := sc
			s.Ops = append(append([]sOp{}, sc.Ops[:i]...), sc.Ops[i+chunk:]...)
			emit(s)
		}
	}
	if sc.Envs > 1 {
		s := sc
		s.Envs = sc.Envs - 1
		emit(s)
	}
	for i, op := range sc.Ops {
		if len(op.Fields) > 1 {
			for j := range op.Fields {
				s := sc
				s.Ops = append([]sOp{}, sc.Ops...)
				s.Ops[i].Fields = append(append([]sField{}, op.Fields[:j]...), op.Fields[j+1:]...)
				emit(s)
			}
		}
		if len(op.Inits) > 0 {
			for j := range op.Inits {
				s := sc
				s.Ops = append([]sOp{}, sc.Ops...)
				s.Ops[i].Inits = append(append([]sInit{}, op.Inits[:j]...), op.Inits[j+1:]...)
				emit(s)
			}
		}
		if op.Route != "" && op.Route != "hset" {
			s := sc
			s.Ops = append([]sOp{}, sc.Ops...)
			s.Ops[i].Route = "hset"
			emit(s)
		}
	}
	return out
}

func init() {
	kernel.Register(&kernel.Plan{
		Property: "C17",
		Level:    "exploration",
		Rule: "seeded histories (4-30 steps, 1-3 interpreters in one process sharing the process-global type registry) of struct (re)declarations over {int64,string,float64,bool,([]int64),([]string),(* Sk),Sk}, constructions and JSON/msgpack decodes with right and wrong values, " +
			"field writes through hset, dot-path set, infix assignment, index assignment, writes through a pointer ((hset (* p) ...)) and whole-instance replacement (derefSet), with values of 14 kinds; after every step every live instance is read back from the Go side and checked against the declaration that was in force at its creation. " +
			"distinct_nontrivial counts distinct (operation, route, value kind -> declared type, accepted?) signatures.",
		Components: map[string][]string{
			"real": {"struct builder, type registry, MakeHash/TypeCheckRecord, HashSet/TypeCheckField, dot-path and selector assignment, DerefFunction, JSON/msgpack decoders"},
			"stub": {"none; the reference model is the declaration in force at each instance's creation plus a strict fits(kind, type) predicate"},
		},
		Assume: []string{
			"the model never predicts accept/reject (a refused well-typed write is consistent with the statement); it judges outcomes: stored fields and kinds, unchanged instance after a rejected write, nil/[] accepted for pointer and slice fields",
			"nil is taken to fit every field (the language accepts nil everywhere); heterogeneous arrays and element writes into slice fields are not generated",
			"an instance of struct Sk is taken to fit a field of type Sk regardless of declaration version",
		},
		Parts: []*kernel.Part{
			{Name: "histories", Count: func(tier string) int {
				if tier == "thorough" {
					return 40000
				}
				return 6000
			}, Generate: genC17, Execute: execC17, Shrink: shrinkC17},
		},
	})
}
